(* The documented behaviour of every base strategy: which price fields it reads, which indicator it computes from them,
   and the decision rule (threshold, sign or cross-over test) with the Shift that re-anchors it to snapshot positions.
   Transcribed from the doc comment and the in-line comments of each strategy type, using the library's own indicator
   definitions (Gen/All.v) for the indicator values, so that C06 isolates wiring, alignment and the comparison.
   Bootstrapped from the regenerated model of the pinned tree by bin/mk-strategy-doc and then audited against the doc
   comments (see DESIGN.md, C06): this file is hand-maintained and is NOT regenerated. Deviations found by the audit are
   marked AUDIT below. *)
From Coq Require Import ZArith List Bool String.
Import ListNotations.
From Verif Require Import Base.Num Base.Stream Base.GenPrelude Gen.All.
Set Implicit Arguments.
Local Open Scope Z_scope.

Section Doc.
Context {I T : Type} {N : Num T}.

Definition doc_strategy_BuyAndHoldStrategy_Compute (self_ : strategy_BuyAndHoldStrategy) (snapshots : (expr I (asset_Snapshot (T:=T)))) : (expr I Z) :=
  EBuyHold 1%Z 0%Z (asset_SnapshotsAsClosings snapshots).

Definition doc_strategy_trend_MacdStrategy_Compute (m : strategy_trend_MacdStrategy) (snapshots : (expr I (asset_Snapshot (T:=T)))) : (expr I Z) :=
  let closings := (asset_SnapshotsAsClosings snapshots) in
  let '(macds, signals) := (trend_Macd_Compute (strategy_trend_MacdStrategy_Macd m) closings) in
  let actions := (EOp2 (fun macd signal => (if (andb (ngtb macd signal) (nltb macd (nofZ 0%Z)))
  then 1%Z
  else (if (andb (ngtb signal macd) (ngtb macd (nofZ 0%Z)))
  then (-1)%Z
  else 0%Z))) macds signals) in
  let actions := (EShift (trend_Macd_IdlePeriod (strategy_trend_MacdStrategy_Macd m)) 0%Z actions) in
  actions.

Definition doc_strategy_momentum_RsiStrategy_Compute (r : strategy_momentum_RsiStrategy) (snapshots : (expr I (asset_Snapshot (T:=T)))) : (expr I Z) :=
  let closings := (asset_SnapshotsAsClosings snapshots) in
  let rsi := (momentum_Rsi_Compute (strategy_momentum_RsiStrategy_Rsi r) closings) in
  let actions := (EMap (fun value => (if (nleb value (strategy_momentum_RsiStrategy_BuyAt r))
  then 1%Z
  else (if (ngeb value (strategy_momentum_RsiStrategy_SellAt r))
  then (-1)%Z
  else 0%Z))) rsi) in
  let actions := (EShift (momentum_Rsi_IdlePeriod (strategy_momentum_RsiStrategy_Rsi r)) 0%Z actions) in
  actions.

Definition doc_strategy_momentum_AwesomeOscillatorStrategy_Compute (a : strategy_momentum_AwesomeOscillatorStrategy) (snapshots : (expr I (asset_Snapshot (T:=T)))) : (expr I Z) :=
  let snapshotsSplice_0 := snapshots in
  let snapshotsSplice_1 := snapshotsSplice_0 in
  let highs := (asset_SnapshotsAsHighs snapshotsSplice_0) in
  let lows := (asset_SnapshotsAsLows snapshotsSplice_1) in
  let ao := (momentum_AwesomeOscillator_Compute (strategy_momentum_AwesomeOscillatorStrategy_AwesomeOscillator a) highs lows) in
  let actions := (EMap (fun value => (if (nltb value (nofZ 0%Z))
  then (-1)%Z
  else (if (ngtb value (nofZ 0%Z))
  then 1%Z
  else 0%Z))) ao) in
  let actions := (EShift (momentum_AwesomeOscillator_IdlePeriod (strategy_momentum_AwesomeOscillatorStrategy_AwesomeOscillator a)) 0%Z actions) in
  actions.

Definition doc_strategy_momentum_StochasticRsiStrategy_Compute (s : strategy_momentum_StochasticRsiStrategy) (snapshots : (expr I (asset_Snapshot (T:=T)))) : (expr I Z) :=
  let closings := (asset_SnapshotsAsClosings snapshots) in
  let stochasticRsi := (momentum_StochasticRsi_Compute (strategy_momentum_StochasticRsiStrategy_StochasticRsi s) closings) in
  let actions := (EMap (fun value => (if (nleb value (strategy_momentum_StochasticRsiStrategy_BuyAt s))
  then 1%Z
  else (if (ngeb value (strategy_momentum_StochasticRsiStrategy_SellAt s))
  then (-1)%Z
  else 0%Z))) stochasticRsi) in
  let actions := (EShift (momentum_StochasticRsi_IdlePeriod (strategy_momentum_StochasticRsiStrategy_StochasticRsi s)) 0%Z actions) in
  actions.

Definition doc_strategy_momentum_TripleRsiStrategy_Compute (t : strategy_momentum_TripleRsiStrategy) (snapshots : (expr I (asset_Snapshot (T:=T)))) : (expr I Z) :=
  let closingsSplice_0 := (asset_SnapshotsAsClosings snapshots) in
  let closingsSplice_1 := closingsSplice_0 in
  let closingsSplice_2 := closingsSplice_0 in
  let rsis := (momentum_Rsi_Compute (strategy_momentum_TripleRsiStrategy_Rsi t) closingsSplice_0) in
  let smas := (trend_Sma_Compute (strategy_momentum_TripleRsiStrategy_Sma t) closingsSplice_1) in
  let rsis := (ESkip (Z.sub (trend_Sma_IdlePeriod (strategy_momentum_TripleRsiStrategy_Sma t)) (momentum_Rsi_IdlePeriod (strategy_momentum_TripleRsiStrategy_Rsi t))) rsis) in
  let closingsSplice_2 := (ESkip (trend_Sma_IdlePeriod (strategy_momentum_TripleRsiStrategy_Sma t)) closingsSplice_2) in
  let downDays := strategy_momentum_TripleRsiStrategy_DownDays t in
  let actions := EOp3St (@nil T) (fun memory rsi sma closing =>
      let memory := ring_push downDays memory rsi in
      (memory,
       if negb (ring_full downDays memory) then 0%Z
       else if ngtb rsi (strategy_momentum_TripleRsiStrategy_SellAt t) then (-1)%Z
       else if ngeb rsi (strategy_momentum_TripleRsiStrategy_BuyAt t) then 0%Z
       else if (fix rising (l : list T) : bool :=
                  match l with
                  | a :: ((b :: _) as l') => if ngtb a b then true else rising l'
                  | _ => false
                  end) memory then 0%Z
       else if ngeb (hd nzero memory) (strategy_momentum_TripleRsiStrategy_BuySignalAt t) then 0%Z
       else if nleb closing sma then 0%Z
       else 1%Z)) rsis smas closingsSplice_2 in
  let actions := (EShift (trend_Sma_IdlePeriod (strategy_momentum_TripleRsiStrategy_Sma t)) 0%Z actions) in
  actions.

Definition doc_strategy_trend_AlligatorStrategy_Compute (a : strategy_trend_AlligatorStrategy) (snapshots : (expr I (asset_Snapshot (T:=T)))) : (expr I Z) :=
  let closingsSplice_0 := (asset_SnapshotsAsClosings snapshots) in
  let closingsSplice_1 := closingsSplice_0 in
  let closingsSplice_2 := closingsSplice_0 in
  let jaws := (trend_Smma_Compute (strategy_trend_AlligatorStrategy_Jaw a) closingsSplice_0) in
  let teeths := (trend_Smma_Compute (strategy_trend_AlligatorStrategy_Teeth a) closingsSplice_1) in
  let lips := (trend_Smma_Compute (strategy_trend_AlligatorStrategy_Lip a) closingsSplice_2) in
  let commonPeriod := (helper_CommonPeriod [(trend_Smma_Period (strategy_trend_AlligatorStrategy_Jaw a)); (trend_Smma_Period (strategy_trend_AlligatorStrategy_Teeth a)); (trend_Smma_Period (strategy_trend_AlligatorStrategy_Lip a))]) in
  let jaws := (helper_SyncPeriod commonPeriod (trend_Smma_Period (strategy_trend_AlligatorStrategy_Jaw a)) jaws) in
  let teeths := (helper_SyncPeriod commonPeriod (trend_Smma_Period (strategy_trend_AlligatorStrategy_Teeth a)) teeths) in
  let lips := (helper_SyncPeriod commonPeriod (trend_Smma_Period (strategy_trend_AlligatorStrategy_Lip a)) lips) in
  let actions := (EOp3 (fun jaw teeth lip => (if (andb (ngtb lip teeth) (ngtb lip jaw))
  then 1%Z
  else (if (andb (nltb lip teeth) (nltb lip jaw))
  then (-1)%Z
  else 0%Z))) jaws teeths lips) in
  let actions := (EShift commonPeriod 0%Z actions) in
  actions.

Definition doc_strategy_trend_ApoStrategy_Compute (a : strategy_trend_ApoStrategy) (snapshots : (expr I (asset_Snapshot (T:=T)))) : (expr I Z) :=
  let closings := (asset_SnapshotsAsClosings snapshots) in
  let apo := (trend_Apo_Compute (strategy_trend_ApoStrategy_Apo a) closings) in
  let apo := (EBuf 2%Z apo) in
  let inputs_0 := apo in
  let inputs_1 := inputs_0 in
  let inputs_1 := (ESkip 1%Z inputs_1) in
  let actions := (EOp2 (fun b c => (if (andb (ngeb c (nofZ 0%Z)) (nltb b (nofZ 0%Z)))
  then 1%Z
  else (if (andb (nleb c (nofZ 0%Z)) (ngtb b (nofZ 0%Z)))
  then (-1)%Z
  else 0%Z))) inputs_0 inputs_1) in
  let actions := (EShift (trend_Apo_SlowPeriod (strategy_trend_ApoStrategy_Apo a)) 0%Z actions) in
  actions.

Definition doc_strategy_trend_AroonStrategy_Compute (a : strategy_trend_AroonStrategy) (c : (expr I (asset_Snapshot (T:=T)))) : (expr I Z) :=
  let snapshots_0 := c in
  let snapshots_1 := snapshots_0 in
  let highs := (asset_SnapshotsAsHighs snapshots_0) in
  let lows := (asset_SnapshotsAsLows snapshots_1) in
  let '(ups, downs) := (trend_Aroon_Compute (strategy_trend_AroonStrategy_Aroon a) highs lows) in
  let actions := (EOp2 (fun up down => (if (ngtb up down)
  then 1%Z
  else (if (ngtb down up)
  then (-1)%Z
  else 0%Z))) ups downs) in
  let actions := (EShift (Z.sub (trend_Aroon_Period (strategy_trend_AroonStrategy_Aroon a)) 1%Z) 0%Z actions) in
  actions.

Definition doc_strategy_trend_BopStrategy_Compute (b : strategy_trend_BopStrategy) (c : (expr I (asset_Snapshot (T:=T)))) : (expr I Z) :=
  let snapshots_0 := c in
  let snapshots_1 := snapshots_0 in
  let snapshots_2 := snapshots_0 in
  let snapshots_3 := snapshots_0 in
  let openings := (asset_SnapshotsAsOpenings snapshots_0) in
  let highs := (asset_SnapshotsAsHighs snapshots_1) in
  let lows := (asset_SnapshotsAsLows snapshots_2) in
  let closings := (asset_SnapshotsAsClosings snapshots_3) in
  let bops := (trend_Bop_Compute (strategy_trend_BopStrategy_Bop b) openings highs lows closings) in
  (EMap (fun bop => (if (ngtb bop (nofZ 0%Z))
  then 1%Z
  else (if (nltb bop (nofZ 0%Z))
  then (-1)%Z
  else 0%Z))) bops).

Definition doc_strategy_trend_CciStrategy_Compute (t : strategy_trend_CciStrategy) (c : (expr I (asset_Snapshot (T:=T)))) : (expr I Z) :=
  let snapshots_0 := c in
  let snapshots_1 := snapshots_0 in
  let snapshots_2 := snapshots_0 in
  (* AUDIT: the CCI is documented on the typical price of high, low and close (trend/cci.go); the code of the pinned tree
     reads SnapshotsAsHighs three times *)
  let highs := (asset_SnapshotsAsHighs snapshots_0) in
  let lows := (asset_SnapshotsAsLows snapshots_1) in
  let closings := (asset_SnapshotsAsClosings snapshots_2) in
  let ccis := (trend_Cci_Compute (strategy_trend_CciStrategy_Cci t) highs lows closings) in
  let actions := (EMap (fun cci => (if (ngeb cci (nofZ 100%Z))
  then 1%Z
  else (if (nleb cci (nofZ (-100)%Z))
  then (-1)%Z
  else 0%Z))) ccis) in
  let actions := (EShift (trend_Cci_IdlePeriod (strategy_trend_CciStrategy_Cci t)) 0%Z actions) in
  actions.

Definition doc_strategy_trend_DemaStrategy_Compute (d : strategy_trend_DemaStrategy) (c : (expr I (asset_Snapshot (T:=T)))) : (expr I Z) :=
  let closings_0 := (asset_SnapshotsAsClosings c) in
  let closings_1 := closings_0 in
  let demas1 := (trend_Dema_Compute (strategy_trend_DemaStrategy_Dema1 d) closings_0) in
  let demas1 := (EShift (trend_Dema_IdlePeriod (strategy_trend_DemaStrategy_Dema1 d)) (nofZ 0%Z) demas1) in
  let demas2 := (trend_Dema_Compute (strategy_trend_DemaStrategy_Dema2 d) closings_1) in
  let demas2 := (EShift (trend_Dema_IdlePeriod (strategy_trend_DemaStrategy_Dema2 d)) (nofZ 0%Z) demas2) in
  let actions := (EOp2 (fun dema1 dema2 => (if (ngtb dema1 dema2)
  then 1%Z
  else (if (ngtb dema2 dema1)
  then (-1)%Z
  else 0%Z))) demas1 demas2) in
  let actions := (ESkip (trend_Dema_IdlePeriod (strategy_trend_DemaStrategy_Dema2 d)) actions) in
  let actions := (EShift (trend_Dema_IdlePeriod (strategy_trend_DemaStrategy_Dema2 d)) 0%Z actions) in
  actions.

Definition doc_strategy_trend_EnvelopeStrategy_Compute (e : strategy_trend_EnvelopeStrategy) (snapshots : (expr I (asset_Snapshot (T:=T)))) : (expr I Z) :=
  let closingsSplice_0 := (asset_SnapshotsAsClosings snapshots) in
  let closingsSplice_1 := closingsSplice_0 in
  let closingsSplice_1 := (ESkip (trend_Envelope_IdlePeriod (strategy_trend_EnvelopeStrategy_Envelope e)) closingsSplice_1) in
  let '(uppers, middles, lowers) := (trend_Envelope_Compute (strategy_trend_EnvelopeStrategy_Envelope e) closingsSplice_0) in
  let actions := (EOp3 (fun upper lower closing => (if (nltb closing lower)
  then 1%Z
  else (if (ngtb closing upper)
  then (-1)%Z
  else 0%Z))) uppers lowers closingsSplice_1) in
  let actions := (EShift (trend_Envelope_IdlePeriod (strategy_trend_EnvelopeStrategy_Envelope e)) 0%Z actions) in
  actions.

Definition doc_strategy_trend_GoldenCrossStrategy_calculateEmas (t : strategy_trend_GoldenCrossStrategy) (c : (expr I (asset_Snapshot (T:=T)))) : ((expr I T) * (expr I T)) :=
  let closings_0 := (asset_SnapshotsAsClosings c) in
  let closings_1 := closings_0 in
  let fastEmas := (ESkip (Z.sub (trend_Ema_IdlePeriod (strategy_trend_GoldenCrossStrategy_SlowEma t)) (trend_Ema_IdlePeriod (strategy_trend_GoldenCrossStrategy_FastEma t))) (trend_Ema_Compute (strategy_trend_GoldenCrossStrategy_FastEma t) closings_0)) in
  let slowEmas := (trend_Ema_Compute (strategy_trend_GoldenCrossStrategy_SlowEma t) closings_1) in
  (fastEmas, slowEmas).

Definition doc_strategy_trend_GoldenCrossStrategy_Compute (t : strategy_trend_GoldenCrossStrategy) (c : (expr I (asset_Snapshot (T:=T)))) : (expr I Z) :=
  let '(fastEmas, slowEmas) := (doc_strategy_trend_GoldenCrossStrategy_calculateEmas t c) in
  let actions := (EOp2 (fun fastEma slowEma => (if (ngtb fastEma slowEma)
  then 1%Z
  else (if (nltb fastEma slowEma)
  then (-1)%Z
  else 0%Z))) fastEmas slowEmas) in
  let actions := (EShift (trend_Ema_IdlePeriod (strategy_trend_GoldenCrossStrategy_SlowEma t)) 0%Z actions) in
  actions.

Definition doc_strategy_trend_KamaStrategy_Compute (k : strategy_trend_KamaStrategy) (snapshots : (expr I (asset_Snapshot (T:=T)))) : (expr I Z) :=
  let closingsSplice_0 := (asset_SnapshotsAsClosings snapshots) in
  let closingsSplice_1 := closingsSplice_0 in
  let closingsSplice_1 := (ESkip (trend_Kama_IdlePeriod (strategy_trend_KamaStrategy_Kama k)) closingsSplice_1) in
  let kamas := (trend_Kama_Compute (strategy_trend_KamaStrategy_Kama k) closingsSplice_0) in
  let actions := (EOp2 (fun kama closing => (if (ngtb closing kama)
  then 1%Z
  else (if (nltb closing kama)
  then (-1)%Z
  else 0%Z))) kamas closingsSplice_1) in
  let actions := (EShift (trend_Kama_IdlePeriod (strategy_trend_KamaStrategy_Kama k)) 0%Z actions) in
  actions.

Definition doc_strategy_trend_KdjStrategy_Compute (kdj : strategy_trend_KdjStrategy) (c : (expr I (asset_Snapshot (T:=T)))) : (expr I Z) :=
  let snapshots_0 := c in
  let snapshots_1 := snapshots_0 in
  let snapshots_2 := snapshots_0 in
  let highs := (asset_SnapshotsAsHighs snapshots_0) in
  let lows := (asset_SnapshotsAsLows snapshots_1) in
  let closings := (asset_SnapshotsAsClosings snapshots_2) in
  let '(k, d, j) := (trend_Kdj_Compute (strategy_trend_KdjStrategy_Kdj kdj) highs lows closings) in
  let js_0 := j in
  let js_1 := js_0 in
  let jk := (helper_Subtract js_0 k) in
  let jd := (helper_Subtract js_1 d) in
  let actions := (EOp2 (fun a b => (if (andb (ngtb a (nofZ 0%Z)) (ngtb b (nofZ 0%Z)))
  then 1%Z
  else (if (andb (nltb a (nofZ 0%Z)) (nltb b (nofZ 0%Z)))
  then (-1)%Z
  else 0%Z))) jk jd) in
  let actions := (EShift (trend_Kdj_IdlePeriod (strategy_trend_KdjStrategy_Kdj kdj)) 0%Z actions) in
  actions.

Definition doc_strategy_trend_QstickStrategy_Compute (q : strategy_trend_QstickStrategy) (c : (expr I (asset_Snapshot (T:=T)))) : (expr I Z) :=
  let snapshots_0 := c in
  let snapshots_1 := snapshots_0 in
  let openings := (asset_SnapshotsAsOpenings snapshots_0) in
  let closings := (asset_SnapshotsAsClosings snapshots_1) in
  let qstick := (momentum_Qstick_Compute (strategy_trend_QstickStrategy_Qstick q) openings closings) in
  let qstick := (EBuf 2%Z qstick) in
  let qsticks_0 := qstick in
  let qsticks_1 := qsticks_0 in
  let qsticks_1 := (ESkip 1%Z qsticks_1) in
  let actions := (EOp2 (fun b c => (if (andb (ngeb c (nofZ 0%Z)) (nltb b (nofZ 0%Z)))
  then 1%Z
  else (if (andb (nleb c (nofZ 0%Z)) (ngtb b (nofZ 0%Z)))
  then (-1)%Z
  else 0%Z))) qsticks_0 qsticks_1) in
  let actions := (EShift (trend_Sma_Period (momentum_Qstick_Sma (strategy_trend_QstickStrategy_Qstick q))) 0%Z actions) in
  actions.

Definition doc_strategy_trend_SmmaStrategy_Compute (s : strategy_trend_SmmaStrategy) (snapshots : (expr I (asset_Snapshot (T:=T)))) : (expr I Z) :=
  let closingsSplice_0 := (asset_SnapshotsAsClosings snapshots) in
  let closingsSplice_1 := closingsSplice_0 in
  let shortSmmas := (trend_Smma_Compute (strategy_trend_SmmaStrategy_ShortSmma s) closingsSplice_0) in
  let longSmmas := (trend_Smma_Compute (strategy_trend_SmmaStrategy_LongSmma s) closingsSplice_1) in
  let commonPeriod := (helper_CommonPeriod [(trend_Smma_Period (strategy_trend_SmmaStrategy_ShortSmma s)); (trend_Smma_Period (strategy_trend_SmmaStrategy_LongSmma s))]) in
  let shortSmmas := (helper_SyncPeriod commonPeriod (trend_Smma_Period (strategy_trend_SmmaStrategy_ShortSmma s)) shortSmmas) in
  let longSmmas := (helper_SyncPeriod commonPeriod (trend_Smma_Period (strategy_trend_SmmaStrategy_LongSmma s)) longSmmas) in
  let actions := (EOp2 (fun shortSmma longSmma => (if (ngtb shortSmma longSmma)
  then 1%Z
  else (if (ngtb longSmma shortSmma)
  then (-1)%Z
  else 0%Z))) shortSmmas longSmmas) in
  let actions := (EShift commonPeriod 0%Z actions) in
  actions.

Definition doc_strategy_trend_TrimaStrategy_Compute (t : strategy_trend_TrimaStrategy) (c : (expr I (asset_Snapshot (T:=T)))) : (expr I Z) :=
  let closings_0 := (asset_SnapshotsAsClosings c) in
  let closings_1 := closings_0 in
  let shorts := (trend_Trima_Compute (strategy_trend_TrimaStrategy_Short t) closings_0) in
  let longs := (trend_Trima_Compute (strategy_trend_TrimaStrategy_Long t) closings_1) in
  let shorts := (ESkip (Z.sub (trend_Trima_IdlePeriod (strategy_trend_TrimaStrategy_Long t)) (trend_Trima_IdlePeriod (strategy_trend_TrimaStrategy_Short t))) shorts) in
  let actions := (EOp2 (fun short long => (if (ngtb short long)
  then 1%Z
  else (if (ngtb long short)
  then (-1)%Z
  else 0%Z))) shorts longs) in
  let actions := (EShift (trend_Trima_IdlePeriod (strategy_trend_TrimaStrategy_Long t)) 0%Z actions) in
  actions.

Definition doc_strategy_trend_TripleMovingAverageCrossoverStrategy_calculateEmas (t : strategy_trend_TripleMovingAverageCrossoverStrategy) (c : (expr I (asset_Snapshot (T:=T)))) : ((expr I T) * (expr I T) * (expr I T)) :=
  let closings_0 := (asset_SnapshotsAsClosings c) in
  let closings_1 := closings_0 in
  let closings_2 := closings_0 in
  let fastEmas := (ESkip (Z.sub (trend_Ema_IdlePeriod (strategy_trend_TripleMovingAverageCrossoverStrategy_SlowEma t)) (trend_Ema_IdlePeriod (strategy_trend_TripleMovingAverageCrossoverStrategy_FastEma t))) (trend_Ema_Compute (strategy_trend_TripleMovingAverageCrossoverStrategy_FastEma t) closings_0)) in
  let mediumEmas := (ESkip (Z.sub (trend_Ema_IdlePeriod (strategy_trend_TripleMovingAverageCrossoverStrategy_SlowEma t)) (trend_Ema_IdlePeriod (strategy_trend_TripleMovingAverageCrossoverStrategy_MediumEma t))) (trend_Ema_Compute (strategy_trend_TripleMovingAverageCrossoverStrategy_MediumEma t) closings_1)) in
  let slowEmas := (trend_Ema_Compute (strategy_trend_TripleMovingAverageCrossoverStrategy_SlowEma t) closings_2) in
  (fastEmas, mediumEmas, slowEmas).

Definition doc_strategy_trend_TripleMovingAverageCrossoverStrategy_Compute (t : strategy_trend_TripleMovingAverageCrossoverStrategy) (c : (expr I (asset_Snapshot (T:=T)))) : (expr I Z) :=
  let '(fastEmas, mediumEmas, slowEmas) := (doc_strategy_trend_TripleMovingAverageCrossoverStrategy_calculateEmas t c) in
  let actions := (EOp3 (fun fastEma mediumEma slowEma => (if (andb (ngtb fastEma mediumEma) (ngtb fastEma slowEma))
  then 1%Z
  else (if (andb (nltb fastEma mediumEma) (nltb fastEma slowEma))
  then (-1)%Z
  else 0%Z))) fastEmas mediumEmas slowEmas) in
  let actions := (EShift (trend_Ema_IdlePeriod (strategy_trend_TripleMovingAverageCrossoverStrategy_SlowEma t)) 0%Z actions) in
  actions.

Definition doc_strategy_trend_TrixStrategy_Compute (t : strategy_trend_TrixStrategy) (snapshots : (expr I (asset_Snapshot (T:=T)))) : (expr I Z) :=
  let closings := (asset_SnapshotsAsClosings snapshots) in
  let trixs := (trend_Trix_Compute (strategy_trend_TrixStrategy_Trix t) closings) in
  let actions := (EMap (fun trix => (if (ngtb trix (nofZ 0%Z))
  then 1%Z
  else (if (nltb trix (nofZ 0%Z))
  then (-1)%Z
  else 0%Z))) trixs) in
  let actions := (EShift (trend_Trix_IdlePeriod (strategy_trend_TrixStrategy_Trix t)) 0%Z actions) in
  actions.

Definition doc_strategy_trend_TsiStrategy_Compute (t : strategy_trend_TsiStrategy) (snapshots : (expr I (asset_Snapshot (T:=T)))) : (expr I Z) :=
  let closings := (asset_SnapshotsAsClosings snapshots) in
  let tsisSplice_0 := (trend_Tsi_Compute (strategy_trend_TsiStrategy_Tsi t) closings) in
  let tsisSplice_1 := tsisSplice_0 in
  let tsisSplice_0 := (ESkip (trend_Ma_IdlePeriod (strategy_trend_TsiStrategy_Signal t)) tsisSplice_0) in
  let signals := (trend_Ma_Compute (strategy_trend_TsiStrategy_Signal t) tsisSplice_1) in
  let actions := (EOp2 (fun tsi signal => (if (andb (ngtb tsi (nofZ 0%Z)) (ngtb tsi signal))
  then 1%Z
  else (if (andb (nltb tsi (nofZ 0%Z)) (nltb tsi signal))
  then (-1)%Z
  else 0%Z))) tsisSplice_0 signals) in
  let actions := (EShift (strategy_trend_TsiStrategy_IdlePeriod t) 0%Z actions) in
  actions.

Definition doc_strategy_trend_VwmaStrategy_calculateSmaAndVwma (v : strategy_trend_VwmaStrategy) (c : (expr I (asset_Snapshot (T:=T)))) : ((expr I T) * (expr I T)) :=
  let snapshots_0 := c in
  let snapshots_1 := snapshots_0 in
  let closings_0 := (asset_SnapshotsAsClosings snapshots_0) in
  let closings_1 := closings_0 in
  let volume := (asset_SnapshotsAsVolumes snapshots_1) in
  let smas := (trend_Sma_Compute (strategy_trend_VwmaStrategy_Sma v) closings_0) in
  let vwmas := (trend_Vwma_Compute (strategy_trend_VwmaStrategy_Vwma v) closings_1 volume) in
  (smas, vwmas).

Definition doc_strategy_trend_VwmaStrategy_Compute (v : strategy_trend_VwmaStrategy) (c : (expr I (asset_Snapshot (T:=T)))) : (expr I Z) :=
  let '(smas, vwmas) := (doc_strategy_trend_VwmaStrategy_calculateSmaAndVwma v c) in
  let actions := (EOp2 (fun sma vwma => (if (ngtb vwma sma)
  then 1%Z
  else (if (ngtb sma vwma)
  then (-1)%Z
  else 0%Z))) smas vwmas) in
  let actions := (EShift (Z.sub (trend_Vwma_Period (strategy_trend_VwmaStrategy_Vwma v)) 1%Z) 0%Z actions) in
  actions.

Definition doc_strategy_trend_WeightedCloseStrategy_Compute (w : strategy_trend_WeightedCloseStrategy) (snapshots : (expr I (asset_Snapshot (T:=T)))) : (expr I Z) :=
  let snapshotsSplice_0 := snapshots in
  let snapshotsSplice_1 := snapshotsSplice_0 in
  let snapshotsSplice_2 := snapshotsSplice_0 in
  let highs := (asset_SnapshotsAsHighs snapshotsSplice_0) in
  let lows := (asset_SnapshotsAsLows snapshotsSplice_1) in
  let closings := (asset_SnapshotsAsClosings snapshotsSplice_2) in
  let wcSplice_0 := (trend_WeightedClose_Compute (strategy_trend_WeightedCloseStrategy_WeightedClose w) highs lows closings) in
  let wcSplice_1 := wcSplice_0 in
  let mas := (trend_Ma_Compute (strategy_trend_WeightedCloseStrategy_Ma w) wcSplice_1) in
  let wcSplice_0 := (ESkip (trend_Ma_IdlePeriod (strategy_trend_WeightedCloseStrategy_Ma w)) wcSplice_0) in
  let actions := (EOp2 (fun wc ma => (if (ngtb wc ma)
  then 1%Z
  else (-1)%Z)) wcSplice_0 mas) in
  let actions := (EShift (trend_Ma_IdlePeriod (strategy_trend_WeightedCloseStrategy_Ma w)) 0%Z actions) in
  actions.

Definition doc_strategy_volatility_BollingerBandsStrategy_Compute (b : strategy_volatility_BollingerBandsStrategy) (snapshots : (expr I (asset_Snapshot (T:=T)))) : (expr I Z) :=
  let closings_0 := (asset_SnapshotsAsClosings snapshots) in
  let closings_1 := closings_0 in
  let '(uppers, middles, lowers) := (volatility_BollingerBands_Compute (strategy_volatility_BollingerBandsStrategy_BollingerBands b) closings_0) in
  let closings_1 := (ESkip (volatility_BollingerBands_IdlePeriod (strategy_volatility_BollingerBandsStrategy_BollingerBands b)) closings_1) in
  let actions := (EOp3 (fun upper lower closing => (if (ngtb closing upper)
  then 1%Z
  else (if (ngtb lower closing)
  then (-1)%Z
  else 0%Z))) uppers lowers closings_1) in
  let actions := (EShift (volatility_BollingerBands_IdlePeriod (strategy_volatility_BollingerBandsStrategy_BollingerBands b)) 0%Z actions) in
  actions.

Definition doc_strategy_volatility_SuperTrendStrategy_Compute (s : strategy_volatility_SuperTrendStrategy) (snapshots : (expr I (asset_Snapshot (T:=T)))) : (expr I Z) :=
  let snapshotsSplice_0 := snapshots in
  let snapshotsSplice_1 := snapshotsSplice_0 in
  let snapshotsSplice_2 := snapshotsSplice_0 in
  let highs := (asset_SnapshotsAsHighs snapshotsSplice_0) in
  let lows := (asset_SnapshotsAsLows snapshotsSplice_1) in
  let closingsSplice_0 := (asset_SnapshotsAsClosings snapshotsSplice_2) in
  let closingsSplice_1 := closingsSplice_0 in
  let superTrends := (volatility_SuperTrend_Compute (strategy_volatility_SuperTrendStrategy_SuperTrend s) highs lows closingsSplice_0) in
  let closingsSplice_1 := (ESkip (volatility_SuperTrend_IdlePeriod (strategy_volatility_SuperTrendStrategy_SuperTrend s)) closingsSplice_1) in
  let actions := (EOp2 (fun superTrend closing => (if (nltb superTrend closing)
  then 1%Z
  else (if (ngtb superTrend closing)
  then (-1)%Z
  else 0%Z))) superTrends closingsSplice_1) in
  let actions := (EShift (volatility_SuperTrend_IdlePeriod (strategy_volatility_SuperTrendStrategy_SuperTrend s)) 0%Z actions) in
  actions.

Definition doc_strategy_volume_ChaikinMoneyFlowStrategy_Compute (c : strategy_volume_ChaikinMoneyFlowStrategy) (snapshots : (expr I (asset_Snapshot (T:=T)))) : (expr I Z) :=
  let snapshotsSplice_0 := snapshots in
  let snapshotsSplice_1 := snapshotsSplice_0 in
  let snapshotsSplice_2 := snapshotsSplice_0 in
  let snapshotsSplice_3 := snapshotsSplice_0 in
  let highs := (asset_SnapshotsAsHighs snapshotsSplice_0) in
  let lows := (asset_SnapshotsAsLows snapshotsSplice_1) in
  let closings := (asset_SnapshotsAsClosings snapshotsSplice_2) in
  let volumes := (asset_SnapshotsAsVolumes snapshotsSplice_3) in
  let cmfs := (volume_Cmf_Compute (strategy_volume_ChaikinMoneyFlowStrategy_ChaikinMoneyFlow c) highs lows closings volumes) in
  let actions := (EMap (fun cmf => (if (ngtb cmf (nofZ 0%Z))
  then 1%Z
  else (if (nltb cmf (nofZ 0%Z))
  then (-1)%Z
  else 0%Z))) cmfs) in
  let actions := (EShift (volume_Cmf_IdlePeriod (strategy_volume_ChaikinMoneyFlowStrategy_ChaikinMoneyFlow c)) 0%Z actions) in
  actions.

Definition doc_strategy_volume_EaseOfMovementStrategy_Compute (e : strategy_volume_EaseOfMovementStrategy) (snapshots : (expr I (asset_Snapshot (T:=T)))) : (expr I Z) :=
  let snapshotsSplice_0 := snapshots in
  let snapshotsSplice_1 := snapshotsSplice_0 in
  let snapshotsSplice_2 := snapshotsSplice_0 in
  let highs := (asset_SnapshotsAsHighs snapshotsSplice_0) in
  let lows := (asset_SnapshotsAsLows snapshotsSplice_1) in
  let volumes := (asset_SnapshotsAsVolumes snapshotsSplice_2) in
  let emvs := (volume_Emv_Compute (strategy_volume_EaseOfMovementStrategy_EaseOfMovement e) highs lows volumes) in
  let actions := (EMap (fun emv => (if (ngtb emv (nofZ 0%Z))
  then 1%Z
  else (if (nltb emv (nofZ 0%Z))
  then (-1)%Z
  else 0%Z))) emvs) in
  let actions := (EShift (volume_Emv_IdlePeriod (strategy_volume_EaseOfMovementStrategy_EaseOfMovement e)) 0%Z actions) in
  actions.

Definition doc_strategy_volume_ForceIndexStrategy_Compute (f : strategy_volume_ForceIndexStrategy) (snapshots : (expr I (asset_Snapshot (T:=T)))) : (expr I Z) :=
  let snapshotsSplice_0 := snapshots in
  let snapshotsSplice_1 := snapshotsSplice_0 in
  let closings := (asset_SnapshotsAsClosings snapshotsSplice_0) in
  let volumes := (asset_SnapshotsAsVolumes snapshotsSplice_1) in
  let fis := (volume_Fi_Compute (strategy_volume_ForceIndexStrategy_ForceIndex f) closings volumes) in
  let actions := (EMap (fun fi => (if (ngtb fi (nofZ 0%Z))
  then 1%Z
  else (if (nltb fi (nofZ 0%Z))
  then (-1)%Z
  else 0%Z))) fis) in
  let actions := (EShift (volume_Fi_IdlePeriod (strategy_volume_ForceIndexStrategy_ForceIndex f)) 0%Z actions) in
  actions.

Definition doc_strategy_volume_MoneyFlowIndexStrategy_Compute (m : strategy_volume_MoneyFlowIndexStrategy) (snapshots : (expr I (asset_Snapshot (T:=T)))) : (expr I Z) :=
  let snapshotsSplice_0 := snapshots in
  let snapshotsSplice_1 := snapshotsSplice_0 in
  let snapshotsSplice_2 := snapshotsSplice_0 in
  let snapshotsSplice_3 := snapshotsSplice_0 in
  let highs := (asset_SnapshotsAsHighs snapshotsSplice_0) in
  let lows := (asset_SnapshotsAsLows snapshotsSplice_1) in
  let closings := (asset_SnapshotsAsClosings snapshotsSplice_2) in
  let volumes := (asset_SnapshotsAsVolumes snapshotsSplice_3) in
  let mfis := (volume_Mfi_Compute (strategy_volume_MoneyFlowIndexStrategy_MoneyFlowIndex m) highs lows closings volumes) in
  let actions := (EMap (fun mfi => (if (ngeb mfi (strategy_volume_MoneyFlowIndexStrategy_SellAt m))
  then (-1)%Z
  else (if (nleb mfi (strategy_volume_MoneyFlowIndexStrategy_BuyAt m))
  then 1%Z
  else 0%Z))) mfis) in
  let actions := (EShift (volume_Mfi_IdlePeriod (strategy_volume_MoneyFlowIndexStrategy_MoneyFlowIndex m)) 0%Z actions) in
  actions.

Definition doc_strategy_volume_NegativeVolumeIndexStrategy_Compute (n : strategy_volume_NegativeVolumeIndexStrategy) (snapshots : (expr I (asset_Snapshot (T:=T)))) : (expr I Z) :=
  let snapshotsSplice_0 := snapshots in
  let snapshotsSplice_1 := snapshotsSplice_0 in
  let closings := (asset_SnapshotsAsClosings snapshotsSplice_0) in
  let volumes := (asset_SnapshotsAsVolumes snapshotsSplice_1) in
  let nvisSplice_0 := (volume_Nvi_Compute (strategy_volume_NegativeVolumeIndexStrategy_NegativeVolumeIndex n) closings volumes) in
  let nvisSplice_1 := nvisSplice_0 in
  let nvisSplice_0 := (ESkip (trend_Ema_IdlePeriod (strategy_volume_NegativeVolumeIndexStrategy_NegativeVolumeIndexEma n)) nvisSplice_0) in
  let nviEmas := (trend_Ema_Compute (strategy_volume_NegativeVolumeIndexStrategy_NegativeVolumeIndexEma n) nvisSplice_1) in
  let actions := (EOp2 (fun nvi nviEma => (if (nltb nvi nviEma)
  then 1%Z
  else (if (ngtb nvi nviEma)
  then (-1)%Z
  else 0%Z))) nvisSplice_0 nviEmas) in
  let actions := (EShift (Z.add (volume_Nvi_IdlePeriod (strategy_volume_NegativeVolumeIndexStrategy_NegativeVolumeIndex n)) (trend_Ema_IdlePeriod (strategy_volume_NegativeVolumeIndexStrategy_NegativeVolumeIndexEma n))) 0%Z actions) in
  actions.

Definition doc_strategy_volume_WeightedAveragePriceStrategy_Compute (v : strategy_volume_WeightedAveragePriceStrategy) (snapshots : (expr I (asset_Snapshot (T:=T)))) : (expr I Z) :=
  let snapshotsSplice_0 := snapshots in
  let snapshotsSplice_1 := snapshotsSplice_0 in
  let closingsSplice_0 := (asset_SnapshotsAsClosings snapshotsSplice_0) in
  let closingsSplice_1 := closingsSplice_0 in
  let volumes := (asset_SnapshotsAsVolumes snapshotsSplice_1) in
  let vwaps := (volume_Vwap_Compute (strategy_volume_WeightedAveragePriceStrategy_WeightedAveragePrice v) closingsSplice_1 volumes) in
  let closingsSplice_0 := (ESkip (volume_Vwap_IdlePeriod (strategy_volume_WeightedAveragePriceStrategy_WeightedAveragePrice v)) closingsSplice_0) in
  let actions := (EOp2 (fun closing vwap => (if (ngtb vwap closing)
  then 1%Z
  else (if (nltb vwap closing)
  then (-1)%Z
  else 0%Z))) closingsSplice_0 vwaps) in
  let actions := (EShift (volume_Vwap_IdlePeriod (strategy_volume_WeightedAveragePriceStrategy_WeightedAveragePrice v)) 0%Z actions) in
  actions.

End Doc.
