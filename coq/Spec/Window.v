(* Specification vocabulary for C01 / C15 / C18: documented formulas over absolute input positions, for the
   real-number instance.  A series is a list xs; [at_ xs i] is its value at position i (0 outside the list). *)
From Coq Require Import List ZArith Bool Lia Reals Lra.
Import ListNotations.
From Verif Require Import Base.Num Base.Stream.
Local Open Scope R_scope.

Definition at_ (xs : list R) (i : nat) : R := nth i xs 0.
Definition Rsum (l : list R) : R := fold_right Rplus 0 l.

(* the window of the p positions ending at i: i+1-p .. i (a full window when p <= i+1) *)
Definition window (p : nat) (xs : list R) (i : nat) : list R := map (at_ xs) (seq (i + 1 - p) p).
Definition wsum (p : nat) (xs : list R) (i : nat) : R := Rsum (window p xs i).
Definition wmean (p : nat) (xs : list R) (i : nat) : R := wsum p xs i / INR p.
Definition Rlist_max (l : list R) : R := match l with [] => 0 | x :: l' => fold_left Rmax l' x end.
Definition Rlist_min (l : list R) : R := match l with [] => 0 | x :: l' => fold_left Rmin l' x end.
Definition wmax (p : nat) (xs : list R) (i : nat) : R := Rlist_max (window p xs i).
Definition wmin (p : nat) (xs : list R) (i : nat) : R := Rlist_min (window p xs i).

(* the list [f w; f (w+1); ...; f (n-1)]: the values of a formula at the positions an indicator with warm-up w reports *)
Definition tab (w n : nat) (f : nat -> R) : list R := map f (seq w (n - w)).

(* recurrences seeded by the mean of the first p values (EMA, RMA, SMMA):
   r (p-1) = mean of xs[0..p-1];   r i = step (r (i-1)) (xs i)   for i >= p *)
Fixpoint seeded_rec (p : nat) (step : R -> R -> R) (xs : list R) (i : nat) : R :=
  match i with
  | O => wmean p xs (p - 1)
  | S i' => if Nat.leb p i then step (seeded_rec p step xs i') (at_ xs i) else wmean p xs (p - 1)
  end.

(* EMA: (value - previous) * k + previous with k = smoothing / (period + 1) *)
Definition ema_step (k : R) (before n : R) : R := (n - before) * k + before.
Definition ema_doc (p : nat) (smoothing : R) (xs : list R) (i : nat) : R :=
  seeded_rec p (ema_step (smoothing / (INR p + 1))) xs i.
