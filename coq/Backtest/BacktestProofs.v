(* C13 proofs: the backtest worker pool drives the report with the same per-asset call sequences whatever the
   interleaving and the worker count; consequences for the two bundled reports; the ranking needs a real comparison. *)
From Coq Require Import List ZArith Bool Lia Permutation Sorted Arith.
From Verif Require Import Backtest.Backtest.
Import ListNotations.

(* ================================================================== *)
(* 6. Ranking                                                          *)
(* ================================================================== *)
Section Ranking.
Variable O : Type.
Variable geb : O -> O -> bool.
Hypothesis geb_total : forall a b, geb a b = true \/ geb b a = true.
Hypothesis geb_trans : forall a b c, geb a b = true -> geb b c = true -> geb a c = true.
Context {A : Type}.
Variable key : A -> O.

Definition geR (a b : O) : Prop := geb a b = true.

Lemma insert_desc_perm x l : Permutation (insert_desc O geb key x l) (x :: l).
Proof.
  induction l as [|y l IH]; simpl; [reflexivity|].
  destruct (geb (key y) (key x)); [|reflexivity].
  eapply perm_trans; [apply perm_skip, IH | apply perm_swap].
Qed.

Lemma rank_fold_perm l acc :
  Permutation (fold_left (fun acc x => insert_desc O geb key x acc) l acc) (l ++ acc).
Proof.
  revert acc; induction l as [|x l IH]; intro acc; simpl; [reflexivity|].
  eapply perm_trans; [apply IH|].
  eapply perm_trans; [apply Permutation_app_head, insert_desc_perm|].
  symmetry. apply Permutation_middle.
Qed.

Theorem rank_permutation l : Permutation (rank O geb key l) l.
Proof. unfold rank. eapply perm_trans; [apply rank_fold_perm|]. rewrite app_nil_r. reflexivity. Qed.

Lemma non_increasing_Sorted l : non_increasing O geb l = true <-> Sorted geR l.
Proof.
  induction l as [|a l IH]; [split; auto|].
  destruct l as [|b l].
  - simpl. split; auto.
  - change (non_increasing O geb (a :: b :: l)) with (geb a b && non_increasing O geb (b :: l)).
    rewrite andb_true_iff, IH. split.
    + intros [H1 H2]. constructor; auto.
    + intro H. inversion H as [|? ? Hs Hh]; subst. inversion Hh; subst. split; auto.
Qed.

Lemma insert_desc_HdRel a x l :
  geR a (key x) -> HdRel geR a (map key l) -> HdRel geR a (map key (insert_desc O geb key x l)).
Proof.
  destruct l as [|y l]; simpl; intros Hx Hl; [constructor; auto|].
  destruct (geb (key y) (key x)); simpl; constructor; auto.
  inversion Hl; auto.
Qed.

Lemma insert_desc_sorted x l :
  Sorted geR (map key l) -> Sorted geR (map key (insert_desc O geb key x l)).
Proof.
  induction l as [|y l IH]; simpl; intro H.
  { repeat constructor. }
  inversion H as [|? ? Hs Hh]; subst.
  destruct (geb (key y) (key x)) eqn:E; simpl.
  - constructor; [apply IH; auto | apply insert_desc_HdRel; auto].
  - constructor; [exact H|]. constructor.
    destruct (geb_total (key x) (key y)) as [T|T]; [exact T|].
    rewrite T in E. discriminate E.
Qed.

Lemma rank_fold_sorted l acc :
  Sorted geR (map key acc) ->
  Sorted geR (map key (fold_left (fun acc x => insert_desc O geb key x acc) l acc)).
Proof.
  revert acc; induction l as [|x l IH]; intros acc H; simpl; [exact H|].
  apply IH, insert_desc_sorted, H.
Qed.

Lemma rank_sorted l : Sorted geR (map key (rank O geb key l)).
Proof. unfold rank. apply rank_fold_sorted. constructor. Qed.

Theorem rank_non_increasing l : non_increasing O geb (map key (rank O geb key l)) = true.
Proof. apply non_increasing_Sorted, rank_sorted. Qed.

Lemma geb_refl a : geb a a = true.
Proof. destruct (geb_total a a); auto. Qed.

Lemma sorted_head_max b rest :
  Sorted geR (map key (b :: rest)) -> forall x, In x (b :: rest) -> geb (key b) (key x) = true.
Proof.
  intros H x Hx.
  apply Sorted_StronglySorted in H.
  2:{ intros u v w Huv Hvw. exact (geb_trans u v w Huv Hvw). }
  simpl in H. apply StronglySorted_inv in H. destruct H as [_ HF].
  destruct Hx as [Hx|Hx].
  - subst. apply geb_refl.
  - rewrite Forall_forall in HF. apply HF. apply in_map. exact Hx.
Qed.

Theorem rank_head_maximal l b rest :
  rank O geb key l = b :: rest -> forall x, In x l -> geb (key b) (key x) = true.
Proof.
  intros E x Hx.
  apply (sorted_head_max b rest).
  - rewrite <- E. apply rank_sorted.
  - rewrite <- E. apply Permutation_in with (l := l); [symmetry; apply rank_permutation | exact Hx].
Qed.

End Ranking.

(* the Go comparator int(b.Outcome - a.Outcome): truncation toward zero of the difference, on outcomes scaled by 100 *)
Definition trunc_geb (a b : Z) : bool := Z.leb (Z.quot (b - a) 100) 0.

Example truncating_comparator_refuted :
  rank Z trunc_geb (fun x : Z => x) [10%Z; 90%Z] = [10%Z; 90%Z]
  /\ (10 < 90)%Z
  /\ trunc_geb 10 90 = true /\ trunc_geb 90 170 = true /\ trunc_geb 10 170 = false
  /\ ~ (forall x, In x [10%Z; 90%Z] -> (x <= hd 0%Z (rank Z trunc_geb (fun x : Z => x) [10%Z; 90%Z]))%Z).
Proof.
  repeat split; try (vm_compute; reflexivity).
  intro H. specialize (H 90%Z (or_intror (or_introl eq_refl))).
  vm_compute in H. apply H. reflexivity.
Qed.

(* ================================================================== *)
(* generic list facts                                                  *)
(* ================================================================== *)
Lemma set_nth_app {A} (l1 : list A) a l2 x : set_nth (length l1) x (l1 ++ a :: l2) = l1 ++ x :: l2.
Proof. induction l1 as [|y l1 IH]; simpl; [reflexivity|]. rewrite IH. reflexivity. Qed.

Definition b2n (b : bool) : nat := if b then 1 else 0.

Lemma count_occ_cons_b2n (k' : nat) q k :
  count_occ Nat.eq_dec (k' :: q) k = b2n (Nat.eqb k k') + count_occ Nat.eq_dec q k.
Proof.
  destruct (Nat.eqb_spec k k') as [E|E].
  - subst. rewrite count_occ_cons_eq by reflexivity. reflexivity.
  - rewrite count_occ_cons_neq by (intro; apply E; auto). reflexivity.
Qed.

Lemma get_upd {V} k k' (v : V) m : get k (upd k' v m) = if Nat.eqb k k' then Some v else get k m.
Proof.
  induction m as [|[k2 v2] m IH]; simpl.
  - destruct (Nat.eqb k k'); reflexivity.
  - destruct (Nat.eqb_spec k' k2) as [E|E]; simpl.
    + subst k2. destruct (Nat.eqb k k'); reflexivity.
    + rewrite IH. destruct (Nat.eqb_spec k k2) as [E2|E2]; [|reflexivity].
      subst k2. destruct (Nat.eqb_spec k k') as [E3|E3]; [|reflexivity]. subst. contradiction E. reflexivity.
Qed.

(* ================================================================== *)
(* the pool                                                            *)
(* ================================================================== *)
Section Runs.
Context {Snap Res : Type}.
Variable window : nat -> option (list Snap).
Variable eval : nat -> list Snap -> Res.
Variable nstrat : nat.

Notation poolT := (@pool Snap Res).
Notation wstT := (@wstate Snap).
Notation evT := (@event Res).
Notation pstep := (pool_step window eval nstrat).
Notation run := (run_schedule window eval nstrat).
Notation aevents := (asset_events window eval nstrat).

Definition readable (k : nat) : bool := match window k with Some _ => true | None => false end.

(* ---- events_of ---- *)
Lemma events_of_app k (t1 t2 : list evT) : events_of k (t1 ++ t2) = events_of k t1 ++ events_of k t2.
Proof. apply filter_app. Qed.

Lemma events_of_snoc k (t : list evT) e :
  events_of k (t ++ [e]) = events_of k t ++ (if about k e then [e] else []).
Proof. rewrite events_of_app. reflexivity. Qed.

Definition writes (k : nat) (l : list Snap) (a n : nat) : list evT :=
  map (fun j => EWrite k j (eval j l)) (seq a n).
Definition partial_events (k : nat) (l : list Snap) (i : nat) : list evT :=
  EAssetBegin k :: writes k l 0 i.

Lemma aevents_some k l : window k = Some l -> aevents k = partial_events k l nstrat ++ [EAssetEnd k].
Proof. intro H. unfold asset_events. rewrite H. reflexivity. Qed.

Lemma aevents_none k : window k = None -> aevents k = [].
Proof. intro H. unfold asset_events. rewrite H. reflexivity. Qed.

Lemma writes_snoc k l i : writes k l 0 (S i) = writes k l 0 i ++ [EWrite k i (eval i l)].
Proof. unfold writes. rewrite seq_S, map_app. reflexivity. Qed.

Lemma events_of_writes k a l s n :
  events_of k (writes a l s n) = if Nat.eqb k a then writes a l s n else [].
Proof.
  unfold writes. revert s. induction n as [|n IH]; intro s; simpl.
  - destruct (Nat.eqb k a); reflexivity.
  - rewrite IH. destruct (Nat.eqb k a); reflexivity.
Qed.

Lemma events_of_aevents k a : events_of k (aevents a) = if Nat.eqb k a then aevents a else [].
Proof.
  unfold asset_events. destruct (window a) as [l|].
  - change (map (fun i => EWrite a i (eval i l)) (seq 0 nstrat)) with (writes a l 0 nstrat).
    change (events_of k (EAssetBegin a :: writes a l 0 nstrat ++ [EAssetEnd a]))
      with (events_of k ([EAssetBegin a] ++ writes a l 0 nstrat ++ [EAssetEnd a])).
    rewrite !events_of_app, events_of_writes. simpl. destruct (Nat.eqb k a); reflexivity.
  - destruct (Nat.eqb k a); reflexivity.
Qed.

(* ---- who holds which name ---- *)
Definition holdsb (k : nat) (st : wstT) : bool :=
  match st with WNamed k' | WRead k' _ | WAsset k' _ _ => Nat.eqb k k' | _ => false end.
Definition hc (k : nat) (ws : list wstT) : nat := length (filter (holdsb k) ws).
Definition cnt (k : nat) (p : poolT) : nat := count_occ Nat.eq_dec (queue p) k + hc k (workers p).

Lemma hc_app k a b : hc k (a ++ b) = hc k a + hc k b.
Proof. unfold hc. rewrite filter_app, app_length. reflexivity. Qed.
Lemma hc_cons k st ws : hc k (st :: ws) = b2n (holdsb k st) + hc k ws.
Proof. unfold hc. simpl. destruct (holdsb k st); reflexivity. Qed.
Lemma hc0_forall k ws : hc k ws = 0 -> Forall (fun st => holdsb k st = false) ws.
Proof.
  induction ws as [|st ws IH]; intro H; [constructor|].
  rewrite hc_cons in H. destruct (holdsb k st) eqn:E; simpl in H; [discriminate|]. constructor; auto.
Qed.
Lemma cnt_mk k q ws1 st ws2 t :
  cnt k (mk_pool q (ws1 ++ st :: ws2) t)
  = count_occ Nat.eq_dec q k + hc k ws1 + b2n (holdsb k st) + hc k ws2.
Proof. unfold cnt. cbn [queue workers]. rewrite hc_app, hc_cons. lia. Qed.

Lemma holdsb_inj k k' st : holdsb k st = true -> holdsb k' st = true -> k = k'.
Proof.
  destruct st; simpl; try discriminate; intros H1 H2;
    apply Nat.eqb_eq in H1; apply Nat.eqb_eq in H2; congruence.
Qed.

(* what the trace says about the name a worker holds *)
Definition wst_ok (t : list evT) (st : wstT) : Prop :=
  match st with
  | WNamed k => events_of k t = []
  | WRead k l => window k = Some l /\ events_of k t = []
  | WAsset k l i => window k = Some l /\ i <= nstrat /\ events_of k t = partial_events k l i
  | _ => True
  end.

Lemma wst_ok_snoc_other t e k' st :
  (forall k, about k e = Nat.eqb k k') -> holdsb k' st = false -> wst_ok t st -> wst_ok (t ++ [e]) st.
Proof.
  intros Ha Hh H. destruct st as [|k|k l|k l i|]; cbn [wst_ok holdsb] in *; auto;
    rewrite events_of_snoc, Ha, Nat.eqb_sym, Hh, app_nil_r; exact H.
Qed.

Lemma wst_ok_snoc_all t e k' ws :
  (forall k, about k e = Nat.eqb k k') -> hc k' ws = 0 ->
  Forall (wst_ok t) ws -> Forall (wst_ok (t ++ [e])) ws.
Proof.
  intros Ha H0 H. apply hc0_forall in H0. rewrite Forall_forall in *.
  intros st Hst. eapply wst_ok_snoc_other; eauto.
Qed.

Definition inner_ev (e : evT) : Prop := match e with EBegin _ | EEnd => False | _ => True end.

(* ---- one atomic action of one worker ---- *)
Inductive step : poolT -> poolT -> Prop :=
| S_done ws1 ws2 t :
    step (mk_pool [] (ws1 ++ WIdle :: ws2) t) (mk_pool [] (ws1 ++ WDone :: ws2) t)
| S_take k q ws1 ws2 t :
    step (mk_pool (k :: q) (ws1 ++ WIdle :: ws2) t) (mk_pool q (ws1 ++ WNamed k :: ws2) t)
| S_fail k q ws1 ws2 t : window k = None ->
    step (mk_pool q (ws1 ++ WNamed k :: ws2) t) (mk_pool q (ws1 ++ WIdle :: ws2) t)
| S_read k l q ws1 ws2 t : window k = Some l ->
    step (mk_pool q (ws1 ++ WNamed k :: ws2) t) (mk_pool q (ws1 ++ WRead k l :: ws2) t)
| S_begin k l q ws1 ws2 t :
    step (mk_pool q (ws1 ++ WRead k l :: ws2) t)
         (mk_pool q (ws1 ++ WAsset k l 0 :: ws2) (t ++ [EAssetBegin k]))
| S_write k l i q ws1 ws2 t : i < nstrat ->
    step (mk_pool q (ws1 ++ WAsset k l i :: ws2) t)
         (mk_pool q (ws1 ++ WAsset k l (S i) :: ws2) (t ++ [EWrite k i (eval i l)]))
| S_end k l i q ws1 ws2 t : ~ i < nstrat ->
    step (mk_pool q (ws1 ++ WAsset k l i :: ws2) t)
         (mk_pool q (ws1 ++ WIdle :: ws2) (t ++ [EAssetEnd k])).

Lemma pool_step_cases p w : pstep p w = p \/ step p (pstep p w).
Proof.
  unfold pool_step. destruct (nth_error (workers p) w) as [st|] eqn:E; [|left; reflexivity].
  apply nth_error_split in E. destruct E as (ws1 & ws2 & Hw & Hl).
  destruct p as [q ws t]. cbn [workers queue trace] in *. subst ws w.
  cbv beta zeta.
  destruct st as [|k|k l|k l i|].
  - destruct q as [|k q]; rewrite set_nth_app; right; constructor.
  - destruct (window k) as [l|] eqn:Hk; rewrite set_nth_app; right; constructor; assumption.
  - rewrite set_nth_app. right. constructor.
  - destruct (Nat.ltb_spec i nstrat) as [Hi|Hi]; rewrite set_nth_app; right; constructor; lia.
  - left. reflexivity.
Qed.

(* ================================================================== *)
(* the invariant                                                       *)
(* ================================================================== *)
Section WithNames.
Variable names : list nat.

Record Inv (p : poolT) : Prop := mk_Inv {
  inv_cnt : forall k, cnt k p <= 1;
  inv_out : forall k, ~ In k names -> cnt k p = 0 /\ events_of k (trace p) = [];
  inv_queue : forall k, In k (queue p) -> events_of k (trace p) = [];
  inv_workers : Forall (wst_ok (trace p)) (workers p);
  inv_done : forall k, In k names -> cnt k p = 0 -> events_of k (trace p) = aevents k;
  inv_shape : exists inner, trace p = EBegin names :: inner /\ Forall inner_ev inner }.

(* a step that makes no report call *)
Lemma inv_silent q q' ws1 st st' ws2 t :
  Inv (mk_pool q (ws1 ++ st :: ws2) t) ->
  (forall k, count_occ Nat.eq_dec q' k + b2n (holdsb k st')
             <= count_occ Nat.eq_dec q k + b2n (holdsb k st)) ->
  (forall k, In k q' -> In k q) ->
  ((forall k, In k q -> events_of k t = []) -> wst_ok t st -> wst_ok t st') ->
  (forall k, wst_ok t st ->
             count_occ Nat.eq_dec q' k + b2n (holdsb k st')
             < count_occ Nat.eq_dec q k + b2n (holdsb k st) -> events_of k t = aevents k) ->
  Inv (mk_pool q' (ws1 ++ st' :: ws2) t).
Proof.
  intros [Hc Ho Hq Hw Hd Hs] H1 H2 H3 H4. cbn [queue workers trace] in *.
  apply Forall_app in Hw. destruct Hw as [Hw1 Hw2]. inversion Hw2 as [|? ? Hst Hw3]; subst.
  constructor; cbn [queue workers trace].
  - intro k. specialize (Hc k). specialize (H1 k). rewrite cnt_mk in *. lia.
  - intros k Hk. destruct (Ho k Hk) as [Ha Hb]. split; [|exact Hb].
    specialize (H1 k). rewrite cnt_mk in *. lia.
  - intros k Hk. apply Hq, H2, Hk.
  - apply Forall_app. split; [exact Hw1|]. constructor; [apply H3; auto | exact Hw3].
  - intros k Hk H0. specialize (H1 k).
    destruct (Nat.eq_dec (cnt k (mk_pool q (ws1 ++ st :: ws2) t)) 0) as [Z|NZ].
    + apply Hd; auto.
    + apply H4; auto. rewrite cnt_mk in *. lia.
  - exact Hs.
Qed.

(* a step that makes one report call about the name k' its worker holds *)
Lemma inv_emit q ws1 st st' ws2 t e k' :
  Inv (mk_pool q (ws1 ++ st :: ws2) t) ->
  holdsb k' st = true ->
  (forall k, about k e = Nat.eqb k k') ->
  inner_ev e ->
  (forall k, holdsb k st' = true -> holdsb k st = true) ->
  (wst_ok t st -> wst_ok (t ++ [e]) st') ->
  (holdsb k' st' = false -> wst_ok t st -> events_of k' t ++ [e] = aevents k') ->
  Inv (mk_pool q (ws1 ++ st' :: ws2) (t ++ [e])).
Proof.
  intros [Hc Ho Hq Hw Hd Hs] Hh Ha He Hm H3 H4. cbn [queue workers trace] in *.
  apply Forall_app in Hw. destruct Hw as [Hw1 Hw2]. inversion Hw2 as [|? ? Hst Hw3]; subst.
  assert (Hle : forall k, b2n (holdsb k st') <= b2n (holdsb k st)).
  { intro k. destruct (holdsb k st') eqn:E; [rewrite (Hm k E); auto | simpl; lia]. }
  assert (Hk' : count_occ Nat.eq_dec q k' = 0 /\ hc k' ws1 = 0 /\ hc k' ws2 = 0).
  { specialize (Hc k'). rewrite cnt_mk, Hh in Hc. simpl in Hc. lia. }
  destruct Hk' as (Hq0 & H10 & H20).
  constructor; cbn [queue workers trace].
  - intro k. specialize (Hc k). specialize (Hle k). rewrite cnt_mk in *. lia.
  - intros k Hk. destruct (Ho k Hk) as [Hx Hy]. split.
    + specialize (Hle k). rewrite cnt_mk in *. lia.
    + rewrite events_of_snoc, Hy, Ha. destruct (Nat.eqb_spec k k') as [->|]; [|reflexivity].
      rewrite cnt_mk, Hh in Hx. simpl in Hx. lia.
  - intros k Hk. rewrite events_of_snoc, (Hq k Hk), Ha.
    destruct (Nat.eqb_spec k k') as [->|]; [|reflexivity].
    apply (count_occ_In Nat.eq_dec) in Hk. lia.
  - apply Forall_app. split; [eapply wst_ok_snoc_all; eauto|].
    constructor; [auto|eapply wst_ok_snoc_all; eauto].
  - intros k Hk H0. rewrite events_of_snoc, Ha. destruct (Nat.eqb_spec k k') as [->|NE].
    + apply H4; auto. rewrite cnt_mk in H0.
      destruct (holdsb k' st'); [simpl in H0; lia | reflexivity].
    + rewrite app_nil_r. apply Hd; auto. rewrite cnt_mk in *.
      assert (Hf : holdsb k st = false).
      { destruct (holdsb k st) eqn:E; [|reflexivity]. exfalso. apply NE. eapply holdsb_inj; eauto. }
      rewrite Hf. specialize (Hle k). rewrite Hf in Hle. simpl in *. lia.
  - destruct Hs as (inner & E & F). exists (inner ++ [e]). split; [rewrite E; reflexivity|].
    apply Forall_app; split; auto.
Qed.

Lemma step_inv p p' : step p p' -> Inv p -> Inv p'.
Proof.
  intros S HI. destruct S.
  - (* done *) eapply inv_silent; [exact HI| | | |]; cbn [holdsb b2n wst_ok]; auto.
    intros k _ H. lia.
  - (* take *) eapply inv_silent; [exact HI| | | |].
    + intro k0. rewrite count_occ_cons_b2n. cbn [holdsb b2n]. lia.
    + intros k0 H; right; exact H.
    + intros Hq _. cbn [wst_ok]. apply Hq. left; reflexivity.
    + intros k0 _. rewrite count_occ_cons_b2n. cbn [holdsb b2n]. lia.
  - (* read error *) eapply inv_silent; [exact HI| | | |].
    + intro; cbn [holdsb b2n]; lia.
    + auto.
    + intros; exact I.
    + intros k0 Hw. cbn [holdsb b2n wst_ok] in *. intro Hlt.
      destruct (Nat.eqb_spec k0 k); [subst|simpl in Hlt; lia].
      rewrite Hw. symmetry; apply aevents_none; auto.
  - (* read *) eapply inv_silent; [exact HI| | | |].
    + intro; cbn [holdsb b2n]; lia.
    + auto.
    + intros _ Hw. cbn [wst_ok] in *. auto.
    + intros k0 _. cbn [holdsb]. lia.
  - (* AssetBegin *) eapply inv_emit with (k' := k); [exact HI | | | | | |].
    + cbn. apply Nat.eqb_refl.
    + intro; reflexivity.
    + exact I.
    + intros k0 H; exact H.
    + cbn [wst_ok]. intros [Hw He]. split; [auto|]. split; [lia|].
      rewrite events_of_snoc, He. cbn [about]. rewrite Nat.eqb_refl. reflexivity.
    + cbn [holdsb]. rewrite Nat.eqb_refl. discriminate.
  - (* Write *) eapply inv_emit with (k' := k); [exact HI | | | | | |].
    + cbn. apply Nat.eqb_refl.
    + intro; reflexivity.
    + exact I.
    + intros k0 H'; exact H'.
    + cbn [wst_ok]. intros (Hw & Hi & He). split; [auto|]. split; [lia|].
      rewrite events_of_snoc, He. cbn [about]. rewrite Nat.eqb_refl.
      unfold partial_events. rewrite writes_snoc. reflexivity.
    + cbn [holdsb]. rewrite Nat.eqb_refl. discriminate.
  - (* AssetEnd *) eapply inv_emit with (k' := k); [exact HI | | | | | |].
    + cbn. apply Nat.eqb_refl.
    + intro; reflexivity.
    + exact I.
    + intros k0 H'; discriminate H'.
    + intros; exact I.
    + intros _ (Hw & Hi & He). rewrite He. assert (i = nstrat) by lia. subst i.
      symmetry. apply aevents_some. auto.
Qed.

Lemma pstep_inv p w : Inv p -> Inv (pstep p w).
Proof.
  intro HI. destruct (pool_step_cases p w) as [E|S]; [rewrite E; exact HI | eapply step_inv; eauto].
Qed.

Lemma run_inv sched p : Inv p -> Inv (run p sched).
Proof.
  revert p. induction sched as [|w s IH]; intros p HI; simpl; [exact HI|].
  apply IH, pstep_inv, HI.
Qed.

Lemma hc_repeat_idle k n : hc k (repeat WIdle n) = 0.
Proof. induction n as [|n IH]; [reflexivity|]. simpl repeat. rewrite hc_cons, IH. reflexivity. Qed.

Hypothesis names_nodup : NoDup names.

Lemma init_inv n : Inv (init_pool n names).
Proof.
  assert (C : forall k, cnt k (init_pool n names) = count_occ Nat.eq_dec names k).
  { intro k. unfold cnt, init_pool. cbn [queue workers]. rewrite hc_repeat_idle. lia. }
  constructor.
  - intro k. rewrite C. apply (proj1 (NoDup_count_occ Nat.eq_dec names)). exact names_nodup.
  - intros k Hk. rewrite C. split; [|reflexivity]. apply count_occ_not_In. exact Hk.
  - intros k _. reflexivity.
  - cbn [init_pool workers trace]. apply Forall_forall. intros st Hst.
    apply repeat_spec in Hst. subst. exact I.
  - intros k Hk H0. rewrite C in H0. apply (count_occ_In Nat.eq_dec) in Hk. lia.
  - exists []. split; [reflexivity|constructor].
Qed.

Lemma hc_done k (ws : list wstT) :
  forallb (fun st => match st with WDone => true | _ => false end) ws = true -> hc k ws = 0.
Proof.
  induction ws as [|st ws IH]; [reflexivity|]. simpl. intro H. apply andb_true_iff in H.
  destruct H as [H1 H2]. rewrite hc_cons, IH by exact H2. destruct st; try discriminate. reflexivity.
Qed.

Lemma finished_cnt p : finished p = true -> forall k, cnt k p = 0.
Proof.
  unfold finished, cnt. destruct (queue p); [|discriminate]. intros H k. rewrite (hc_done k _ H). reflexivity.
Qed.

Lemma events_of_run_trace k (p : poolT) : events_of k (run_trace p) = events_of k (trace p).
Proof. unfold run_trace. rewrite events_of_snoc. simpl. apply app_nil_r. Qed.


Lemma final_inv n sched : Inv (run (init_pool n names) sched).
Proof. apply run_inv, init_inv. Qed.

(* ================================================================== *)
(* 1. per-asset call sequences                                         *)
(* ================================================================== *)
Theorem per_asset_events n sched :
  finished (run (init_pool n names) sched) = true ->
  forall k, events_of k (run_trace (run (init_pool n names) sched))
            = if in_dec Nat.eq_dec k names then aevents k else [].
Proof.
  intros fin k. rewrite events_of_run_trace. destruct (in_dec Nat.eq_dec k names) as [Hi|Hn].
  - apply (inv_done _ (final_inv n sched)); [exact Hi | apply finished_cnt, fin].
  - apply (inv_out _ (final_inv n sched)), Hn.
Qed.

Corollary per_asset_events_in n sched k :
  finished (run (init_pool n names) sched) = true -> In k names ->
  events_of k (run_trace (run (init_pool n names) sched)) = aevents k.
Proof.
  intros fin Hk. rewrite (per_asset_events n sched fin k).
  destruct (in_dec Nat.eq_dec k names); [reflexivity|contradiction].
Qed.

Corollary per_asset_events_out n sched k :
  finished (run (init_pool n names) sched) = true -> ~ In k names ->
  events_of k (run_trace (run (init_pool n names) sched)) = [].
Proof.
  intros fin Hk. rewrite (per_asset_events n sched fin k).
  destruct (in_dec Nat.eq_dec k names); [contradiction|reflexivity].
Qed.

(* ================================================================== *)
(* 2. Begin first, End last                                            *)
(* ================================================================== *)
Lemma begin_first_end_last_any n sched :
  exists inner, run_trace (run (init_pool n names) sched) = EBegin names :: inner ++ [EEnd]
                /\ Forall inner_ev inner.
Proof.
  destruct (inv_shape _ (final_inv n sched)) as (inner & E & F).
  exists inner. split; [|exact F]. unfold run_trace. rewrite E. reflexivity.
Qed.

Theorem begin_first_end_last n sched :
  finished (run (init_pool n names) sched) = true ->
  exists inner, run_trace (run (init_pool n names) sched) = EBegin names :: inner ++ [EEnd]
                /\ forall e, In e inner -> match e with EBegin _ | EEnd => False | _ => True end.
Proof.
  intros _. destruct (begin_first_end_last_any n sched) as (inner & E & F).
  exists inner. split; [exact E|]. rewrite Forall_forall in F. exact F.
Qed.

(* ================================================================== *)
(* 3. the harness's protocol check accepts every call sequence         *)
(* ================================================================== *)
Lemma call_about_erase k (e : evT) : call_about k (erase e) = about k e.
Proof. destruct e; reflexivity. Qed.

Lemma filter_erase k (t : list evT) : filter (call_about k) (map erase t) = map erase (events_of k t).
Proof.
  unfold events_of. induction t as [|e t IH]; simpl; [reflexivity|].
  rewrite call_about_erase. destruct (about k e); simpl; rewrite IH; reflexivity.
Qed.

Lemma call_eqb_refl c : call_eqb c c = true.
Proof. destruct c; simpl; rewrite ?Nat.eqb_refl; reflexivity. Qed.

Lemma calls_eqb_refl l : calls_eqb l l = true.
Proof. induction l as [|c l IH]; simpl; [reflexivity|]. rewrite call_eqb_refl, IH. reflexivity. Qed.

Lemma erase_aevents k : map erase (aevents k) = expected_calls nstrat readable k.
Proof.
  unfold asset_events, expected_calls, readable. destruct (window k) as [l|]; [|reflexivity].
  simpl. rewrite map_app, map_map. reflexivity.
Qed.

Lemma protocol_ok_shape nms rd inner :
  protocol_ok nstrat nms rd (CBegin :: inner ++ [CEnd])
  = forallb is_inner inner
    && forallb (fun k => calls_eqb (filter (call_about k) inner) (expected_calls nstrat rd k)) nms
    && forallb (fun c => match name_of c with Some k => existsb (Nat.eqb k) nms | None => true end) inner.
Proof. unfold protocol_ok. rewrite rev_unit. cbn beta iota zeta. rewrite rev_involutive. reflexivity. Qed.

Theorem protocol_holds n sched :
  finished (run (init_pool n names) sched) = true ->
  protocol_ok nstrat names (fun k => match window k with Some _ => true | None => false end)
              (map erase (run_trace (run (init_pool n names) sched))) = true.
Proof.
  change (fun k => match window k with Some _ => true | None => false end) with readable.
  intro fin. pose proof (final_inv n sched) as HI.
  set (p := run (init_pool n names) sched) in *.
  destruct (inv_shape p HI) as (inner & E & F).
  assert (Hev : forall k, events_of k inner = events_of k (trace p)).
  { intro k; rewrite E; reflexivity. }
  unfold run_trace. rewrite E. cbn [map app]. rewrite map_app. cbn [map erase].
  rewrite protocol_ok_shape, !andb_true_iff. repeat split.
  - apply forallb_forall. intros c Hc. apply in_map_iff in Hc. destruct Hc as (e & <- & He).
    rewrite Forall_forall in F. specialize (F e He). destruct e; simpl in *; auto; contradiction.
  - apply forallb_forall. intros k Hk. rewrite filter_erase, Hev.
    rewrite (inv_done p HI k Hk (finished_cnt p fin k)), erase_aevents. apply calls_eqb_refl.
  - apply forallb_forall. intros c Hc. apply in_map_iff in Hc. destruct Hc as (e & <- & He).
    destruct (name_of (erase e)) as [k|] eqn:N; [|reflexivity].
    assert (Ha : about k e = true).
    { destruct e; simpl in N; try discriminate; inversion N; subst; simpl; apply Nat.eqb_refl. }
    destruct (in_dec Nat.eq_dec k names) as [Hi|Hn].
    + apply existsb_exists. exists k. split; [exact Hi|apply Nat.eqb_refl].
    + exfalso. destruct (inv_out p HI k Hn) as [_ Ho]. rewrite <- Hev in Ho.
      assert (Hin : In e (events_of k inner)) by (apply filter_In; auto).
      rewrite Ho in Hin. contradiction.
Qed.

(* ================================================================== *)
(* 4. same per-asset results for any worker count and interleaving     *)
(* ================================================================== *)
Lemma events_flat_out k l : ~ In k l -> events_of k (flat_map aevents l) = [].
Proof.
  induction l as [|a l IH]; simpl; intro H; [reflexivity|].
  rewrite events_of_app, events_of_aevents.
  destruct (Nat.eqb_spec k a) as [->|NE]; [exfalso; apply H; left; reflexivity|].
  simpl. apply IH. intro; apply H; right; assumption.
Qed.

Lemma events_flat_in k l : NoDup l -> In k l -> events_of k (flat_map aevents l) = aevents k.
Proof.
  induction 1 as [|a l Hni Hnd IH]; intro H; [contradiction|].
  simpl. rewrite events_of_app, events_of_aevents. destruct (Nat.eqb_spec k a) as [->|NE].
  - rewrite events_flat_out by exact Hni. apply app_nil_r.
  - simpl. apply IH. destruct H as [H|H]; [exfalso; apply NE; symmetry; exact H | exact H].
Qed.

Lemma sequential_events k :
  events_of k (sequential_trace window eval nstrat names)
  = if in_dec Nat.eq_dec k names then aevents k else [].
Proof.
  unfold sequential_trace.
  change (events_of k (flat_map aevents names ++ [EEnd])
          = if in_dec Nat.eq_dec k names then aevents k else []).
  rewrite events_of_snoc. cbn [about]. rewrite app_nil_r.
  destruct (in_dec Nat.eq_dec k names); [apply events_flat_in; assumption | apply events_flat_out; assumption].
Qed.

Theorem same_results_any_workers n1 s1 n2 s2 :
  finished (run (init_pool n1 names) s1) = true ->
  finished (run (init_pool n2 names) s2) = true ->
  forall k,
    events_of k (run_trace (run (init_pool n1 names) s1)) = events_of k (run_trace (run (init_pool n2 names) s2))
    /\ events_of k (run_trace (run (init_pool n1 names) s1)) = events_of k (sequential_trace window eval nstrat names)
    /\ events_of k (run_trace (run (init_pool n2 names) s2)) = events_of k (sequential_trace window eval nstrat names).
Proof.
  intros f1 f2 k. rewrite (per_asset_events n1 s1 f1 k), (per_asset_events n2 s2 f2 k), sequential_events.
  repeat split; reflexivity.
Qed.

(* ================================================================== *)
(* 5. the data report                                                  *)
(* ================================================================== *)
Definition dstep (k : nat) (o : option (list (nat * Res))) (e : evT) : option (list (nat * Res)) :=
  match e with
  | EAssetBegin k' => if Nat.eqb k k' then Some [] else o
  | EWrite k' i r =>
      if Nat.eqb k k' then Some (match o with Some l => l ++ [(i, r)] | None => [(i, r)] end) else o
  | _ => o
  end.

Lemma get_data_step k m e : get k (data_step m e) = dstep k (get k m) e.
Proof.
  destruct e as [|k'|k' i r|k'|]; simpl; try reflexivity;
    rewrite get_upd; destruct (Nat.eqb_spec k k'); subst; reflexivity.
Qed.

Lemma get_data_fold k t m : get k (fold_left data_step t m) = fold_left (dstep k) t (get k m).
Proof.
  revert m; induction t as [|e t IH]; intro m; simpl; [reflexivity|].
  rewrite IH, get_data_step. reflexivity.
Qed.

Lemma dstep_other k o e : about k e = false -> dstep k o e = o.
Proof. destruct e; simpl; intro H; try rewrite H; reflexivity. Qed.

(* the fold only touches key k on events about k *)
Lemma dstep_events_of k t o : fold_left (dstep k) t o = fold_left (dstep k) (events_of k t) o.
Proof.
  revert o; induction t as [|e t IH]; intro o; simpl; [reflexivity|].
  destruct (about k e) eqn:E; simpl; [apply IH|]. rewrite dstep_other by exact E. apply IH.
Qed.

Lemma get_data_report k (t : list evT) : get k (data_report t) = fold_left (dstep k) (events_of k t) None.
Proof. unfold data_report. rewrite get_data_fold, <- dstep_events_of. reflexivity. Qed.

Lemma data_report_depends_only_on_events_of k (t1 t2 : list evT) :
  events_of k t1 = events_of k t2 -> get k (data_report t1) = get k (data_report t2).
Proof. intro H. rewrite !get_data_report, H. reflexivity. Qed.

Definition results (l : list Snap) (i : nat) : list (nat * Res) := map (fun j => (j, eval j l)) (seq 0 i).

Lemma dstep_writes k l a n l0 :
  fold_left (dstep k) (writes k l a n) (Some l0) = Some (l0 ++ map (fun j => (j, eval j l)) (seq a n)).
Proof.
  unfold writes. revert a l0; induction n as [|n IH]; intros a l0; simpl; [rewrite app_nil_r; reflexivity|].
  rewrite Nat.eqb_refl, IH, <- app_assoc. reflexivity.
Qed.

Lemma dstep_partial k l i : fold_left (dstep k) (partial_events k l i) None = Some (results l i).
Proof. unfold partial_events. simpl. rewrite Nat.eqb_refl, dstep_writes. reflexivity. Qed.

Theorem data_report_independent n sched :
  finished (run (init_pool n names) sched) = true ->
  forall k,
    (forall l, In k names -> window k = Some l ->
       get k (data_report (run_trace (run (init_pool n names) sched)))
       = Some (map (fun i => (i, eval i l)) (seq 0 nstrat)))
    /\ (window k = None \/ ~ In k names ->
       get k (data_report (run_trace (run (init_pool n names) sched))) = None).
Proof.
  intros fin k. split.
  - intros l Hk Hw. rewrite get_data_report, (per_asset_events_in n sched k fin Hk), (aevents_some k l Hw).
    rewrite fold_left_app, dstep_partial. reflexivity.
  - intros [Hw|Hn]; rewrite get_data_report, (per_asset_events n sched fin k).
    + destruct (in_dec Nat.eq_dec k names); [rewrite (aevents_none k Hw)|]; reflexivity.
    + destruct (in_dec Nat.eq_dec k names); [contradiction|reflexivity].
Qed.

(* ================================================================== *)
(* 7. the HTML report                                                  *)
(* ================================================================== *)
Section Html.
Variable O : Type.
Variable outcome : Res -> O.
Variable geb : O -> O -> bool.

Notation hrep := (html_report O outcome geb).
Notation hstep := (html_step O outcome geb).
Notation keyR := (fun ir : nat * Res => outcome (snd ir)).
Notation keyB := (fun kb : nat * (nat * Res) => outcome (snd (snd kb))).
Notation rk := (rank O geb keyR).

Lemma hrep_snoc (t : list evT) e : hrep (t ++ [e]) = hstep (hrep t) e.
Proof. unfold html_report. rewrite fold_left_app. reflexivity. Qed.

Lemma open_assets_fold (t : list evT) h :
  open_assets (fold_left hstep t h) = fold_left data_step t (open_assets h).
Proof.
  revert h; induction t as [|e t IH]; intro h; simpl; [reflexivity|]. rewrite IH. f_equal.
  destruct e as [|k|k i r|k|]; simpl; try reflexivity. destruct (get k (open_assets h)); reflexivity.
Qed.

Lemma open_assets_data (t : list evT) : open_assets (hrep t) = data_report t.
Proof. unfold html_report. rewrite open_assets_fold. reflexivity. Qed.

(* the names whose AssetEnd has been called, in call order *)
Definition ended (t : list evT) : list nat :=
  flat_map (fun e => match e with EAssetEnd k => [k] | _ => [] end) t.

Lemma ended_app t1 t2 : ended (t1 ++ t2) = ended t1 ++ ended t2.
Proof. apply flat_map_app. Qed.

Lemma ended_snoc t e : ended (t ++ [e]) = ended t ++ match e with EAssetEnd k => [k] | _ => [] end.
Proof. rewrite ended_app. unfold ended at 2. simpl. rewrite app_nil_r. reflexivity. Qed.

Definition ranking_of (k : nat) : option (list (nat * Res)) :=
  match window k with Some l => Some (rk (results l nstrat)) | None => None end.
Definition hdentry (k : nat) : list (nat * (nat * Res)) :=
  match ranking_of k with Some (b :: _) => [(k, b)] | _ => [] end.

Record InvH (p : poolT) : Prop := mk_InvH {
  invh_best : best (hrep (trace p)) = flat_map hdentry (ended (trace p));
  invh_rank : forall k, get k (asset_rankings (hrep (trace p)))
                        = if existsb (Nat.eqb k) (ended (trace p)) then ranking_of k else None }.

Lemma step_invH p p' : step p p' -> Inv p -> InvH p -> InvH p'.
Proof.
  intros S HI [Hb Hr]. destruct S; try (constructor; assumption); cbn [trace] in *.
  - constructor; cbn [trace]; [|intro k0]; rewrite hrep_snoc, ended_snoc, app_nil_r;
      cbn [html_step best asset_rankings]; auto.
  - constructor; cbn [trace]; [|intro k0]; rewrite hrep_snoc, ended_snoc, app_nil_r;
      cbn [html_step best asset_rankings]; auto.
  - pose proof (inv_workers _ HI) as Hw. cbn [workers trace] in Hw.
    apply Forall_app in Hw. destruct Hw as [_ Hw]. inversion Hw as [|? ? Hst _]; subst.
    destruct Hst as (Hwin & Hi & He). assert (i = nstrat) by lia; subst i.
    assert (Hg : get k (open_assets (hrep t)) = Some (results l nstrat)).
    { rewrite open_assets_data, get_data_report, He. apply dstep_partial. }
    constructor; cbn [trace]; [|intro k0]; rewrite hrep_snoc, ended_snoc; unfold html_step;
      rewrite Hg; cbv zeta; cbn [best asset_rankings].
    + rewrite flat_map_app, <- Hb. cbn [flat_map]. rewrite app_nil_r.
      unfold hdentry, ranking_of. rewrite Hwin.
      destruct (rk (results l nstrat)); [rewrite app_nil_r|]; reflexivity.
    + rewrite get_upd, existsb_app, Hr. cbn [existsb]. rewrite orb_false_r.
      destruct (Nat.eqb_spec k0 k) as [->|NE].
      * rewrite orb_true_r. unfold ranking_of. rewrite Hwin. reflexivity.
      * rewrite orb_false_r. reflexivity.
Qed.

Lemma run_invH sched p : Inv p -> InvH p -> InvH (run p sched).
Proof.
  revert p. induction sched as [|w s IH]; intros p HI HH; simpl; [exact HH|].
  destruct (pool_step_cases p w) as [E|S].
  - rewrite E. apply IH; assumption.
  - apply IH; [eapply step_inv; eauto | eapply step_invH; eauto].
Qed.

Lemma init_invH n : InvH (init_pool n names).
Proof. constructor; reflexivity. Qed.

Lemma final_invH n sched : InvH (run (init_pool n names) sched).
Proof. apply run_invH; [apply init_inv | apply init_invH]. Qed.

(* which names have ended in a finished run *)
Lemma count_ended k (t : list evT) :
  count_occ Nat.eq_dec (ended t) k = count_occ Nat.eq_dec (ended (events_of k t)) k.
Proof.
  induction t as [|e t IH]; [reflexivity|].
  rewrite (ended_app [e] t : ended (e :: t) = _).
  change (events_of k (e :: t)) with (if about k e then e :: events_of k t else events_of k t).
  rewrite count_occ_app, IH.
  destruct e as [|k'|k' i r|k'|]; cbn [about]; try reflexivity.
  - destruct (Nat.eqb k k'); reflexivity.
  - destruct (Nat.eqb k k'); reflexivity.
  - destruct (Nat.eqb_spec k k') as [->|NE].
    + rewrite (ended_app [EAssetEnd k'] (events_of k' t) : ended (EAssetEnd k' :: events_of k' t) = _).
      rewrite count_occ_app. reflexivity.
    + unfold ended at 1. simpl. destruct (Nat.eq_dec k' k); [exfalso; apply NE; auto|reflexivity].
Qed.

Lemma ended_writes k l a n : ended (writes k l a n) = [].
Proof. unfold writes. revert a; induction n as [|n IH]; intro a; simpl; [reflexivity|apply IH]. Qed.

Lemma ended_aevents k : ended (aevents k) = if readable k then [k] else [].
Proof.
  unfold readable. destruct (window k) as [l|] eqn:Hw.
  - rewrite (aevents_some k l Hw). unfold partial_events.
    change (ended (([EAssetBegin k] ++ writes k l 0 nstrat) ++ [EAssetEnd k]) = [k]).
    rewrite !ended_app, ended_writes. reflexivity.
  - rewrite (aevents_none k Hw). reflexivity.
Qed.

Lemma ended_final_count n sched :
  finished (run (init_pool n names) sched) = true ->
  forall k, count_occ Nat.eq_dec (ended (trace (run (init_pool n names) sched))) k
            = if in_dec Nat.eq_dec k names then (if readable k then 1 else 0) else 0.
Proof.
  intros fin k. rewrite count_ended. pose proof (final_inv n sched) as HI.
  destruct (in_dec Nat.eq_dec k names) as [Hi|Hn].
  - rewrite (inv_done _ HI k Hi (finished_cnt _ fin k)), ended_aevents.
    destruct (readable k); [|reflexivity]. simpl. destruct (Nat.eq_dec k k); [reflexivity|contradiction].
  - destruct (inv_out _ HI k Hn) as [_ E]. rewrite E. reflexivity.
Qed.

Lemma ended_final_perm n sched :
  finished (run (init_pool n names) sched) = true ->
  Permutation (ended (trace (run (init_pool n names) sched))) (filter readable names).
Proof.
  intro fin. pose proof (ended_final_count n sched fin) as C. apply NoDup_Permutation.
  - apply (NoDup_count_occ Nat.eq_dec). intro k. rewrite C.
    destruct (in_dec Nat.eq_dec k names); [destruct (readable k)|]; lia.
  - apply NoDup_filter, names_nodup.
  - intro k. rewrite (count_occ_In Nat.eq_dec), C, filter_In.
    destruct (in_dec Nat.eq_dec k names) as [Hi|Hn]; [destruct (readable k)|]; split; intro H;
      try lia; try (destruct H as [H1 H2]; try discriminate; contradiction); auto.
Qed.

Hypothesis geb_total : forall a b, geb a b = true \/ geb b a = true.
Hypothesis geb_trans : forall a b c, geb a b = true -> geb b c = true -> geb a c = true.
Hypothesis nstrat_pos : nstrat >= 1.

Lemma ranking_nonempty l : exists b rest, rk (results l nstrat) = b :: rest.
Proof.
  destruct (rk (results l nstrat)) as [|b rest] eqn:E; [|eauto]. exfalso.
  pose proof (rank_permutation O geb keyR (results l nstrat)) as P. rewrite E in P.
  apply Permutation_nil in P. unfold results in P. destruct nstrat; [lia|]. discriminate P.
Qed.

Lemma ranking_head_max l b rest :
  rk (results l nstrat) = b :: rest -> forall i, i < nstrat -> geb (outcome (snd b)) (outcome (eval i l)) = true.
Proof.
  intros E i Hi.
  apply (rank_head_maximal O geb geb_total geb_trans keyR (results l nstrat) b rest E (i, eval i l)).
  unfold results. apply in_map_iff. exists i. split; [reflexivity|]. apply in_seq. lia.
Qed.

Lemma hdentry_readable k l : window k = Some l -> exists b rest, rk (results l nstrat) = b :: rest /\ hdentry k = [(k, b)].
Proof.
  intro Hw. destruct (ranking_nonempty l) as (b & rest & E). exists b, rest. split; [exact E|].
  unfold hdentry, ranking_of. rewrite Hw, E. reflexivity.
Qed.

Lemma map_fst_heads ks : (forall k, In k ks -> readable k = true) -> map fst (flat_map hdentry ks) = ks.
Proof.
  induction ks as [|k ks IH]; intro H; [reflexivity|]. simpl. rewrite map_app, IH.
  - assert (Hr : readable k = true) by (apply H; left; reflexivity). unfold readable in Hr.
    destruct (window k) as [l|] eqn:Hw; [|discriminate].
    destruct (hdentry_readable k l Hw) as (b & rest & _ & E). rewrite E. reflexivity.
  - intros k0 Hk0. apply H. right. exact Hk0.
Qed.

Theorem html_best_is_each_assets_maximum n sched :
  finished (run (init_pool n names) sched) = true ->
  let h := hrep (run_trace (run (init_pool n names) sched)) in
  (* per-asset rankings *)
  (forall k l, In k names -> window k = Some l ->
     get k (asset_rankings h) = Some (rk (map (fun i => (i, eval i l)) (seq 0 nstrat)))
     /\ Permutation (rk (map (fun i => (i, eval i l)) (seq 0 nstrat))) (map (fun i => (i, eval i l)) (seq 0 nstrat))
     /\ non_increasing O geb (map keyR (rk (map (fun i => (i, eval i l)) (seq 0 nstrat)))) = true
     /\ exists b rest, rk (map (fun i => (i, eval i l)) (seq 0 nstrat)) = b :: rest
          /\ In (k, b) (best h)
          /\ forall i, i < nstrat -> geb (outcome (snd b)) (outcome (eval i l)) = true)
  (* unreadable or unrequested assets have no ranking *)
  /\ (forall k, window k = None \/ ~ In k names -> get k (asset_rankings h) = None)
  (* the best list *)
  /\ (exists bs, best h = rank O geb keyB bs /\ Permutation bs (flat_map hdentry (filter readable names)))
  /\ Permutation (best h) (flat_map hdentry (filter readable names))
  /\ Permutation (map fst (best h)) (filter readable names)
  /\ non_increasing O geb (map keyB (best h)) = true
  /\ (forall kb rest, best h = kb :: rest ->
        forall k l i, In k names -> window k = Some l -> i < nstrat ->
                      geb (outcome (snd (snd kb))) (outcome (eval i l)) = true).
Proof.
  intros fin h.
  pose proof (final_invH n sched) as [Hb Hr].
  pose proof (ended_final_perm n sched fin) as EP.
  pose proof (ended_final_count n sched fin) as EC.
  set (p := run (init_pool n names) sched) in *.
  assert (Hh : h = hstep (hrep (trace p)) EEnd) by (unfold h, run_trace; apply hrep_snoc).
  assert (HR : asset_rankings h = asset_rankings (hrep (trace p))) by (rewrite Hh; reflexivity).
  assert (HB : best h = rank O geb keyB (flat_map hdentry (ended (trace p)))).
  { rewrite Hh. cbn [html_step best]. rewrite Hb. reflexivity. }
  assert (HP : Permutation (best h) (flat_map hdentry (filter readable names))).
  { rewrite HB. eapply perm_trans; [apply rank_permutation|]. apply Permutation_flat_map, EP. }
  assert (Hin : forall k l, In k names -> window k = Some l ->
                 exists b rest, rk (results l nstrat) = b :: rest /\ In (k, b) (best h)).
  { intros k l Hk Hw. destruct (hdentry_readable k l Hw) as (b & rest & E & Hd).
    exists b, rest. split; [exact E|].
    apply Permutation_in with (l := flat_map hdentry (filter readable names)); [symmetry; exact HP|].
    apply in_flat_map. exists k. split.
    - apply filter_In. split; [exact Hk|]. unfold readable. rewrite Hw. reflexivity.
    - rewrite Hd. left. reflexivity. }
  refine (conj _ (conj _ (conj _ (conj _ (conj _ (conj _ _)))))).
  - intros k l Hk Hw. fold (results l nstrat). refine (conj _ (conj _ (conj _ _))).
    + rewrite HR, Hr.
      assert (Hx : existsb (Nat.eqb k) (ended (trace p)) = true).
      { apply existsb_exists. exists k. split; [|apply Nat.eqb_refl].
        apply (count_occ_In Nat.eq_dec). rewrite EC. unfold readable. rewrite Hw.
        destruct (in_dec Nat.eq_dec k names); [lia|contradiction]. }
      rewrite Hx. unfold ranking_of. rewrite Hw. reflexivity.
    + apply rank_permutation.
    + apply (rank_non_increasing O geb geb_total keyR).
    + destruct (Hin k l Hk Hw) as (b & rest & E & Hi).
      exists b, rest. split; [exact E|]. split; [exact Hi|]. apply (ranking_head_max l b rest E).
  - intros k [Hw|Hn]; rewrite HR, Hr.
    + unfold ranking_of. rewrite Hw. destruct (existsb _ _); reflexivity.
    + assert (Hx : existsb (Nat.eqb k) (ended (trace p)) = false).
      { destruct (existsb (Nat.eqb k) (ended (trace p))) eqn:X; [|reflexivity]. exfalso.
        apply existsb_exists in X. destruct X as (x & Hx1 & Hx2). apply Nat.eqb_eq in Hx2. subst x.
        apply (count_occ_In Nat.eq_dec) in Hx1. rewrite EC in Hx1.
        destruct (in_dec Nat.eq_dec k names); [contradiction|lia]. }
      rewrite Hx. reflexivity.
  - exists (flat_map hdentry (ended (trace p))). split; [exact HB|]. apply Permutation_flat_map, EP.
  - exact HP.
  - eapply perm_trans; [apply Permutation_map, HP|]. rewrite map_fst_heads; [reflexivity|].
    intros k Hk. apply filter_In in Hk. apply Hk.
  - rewrite HB. apply (rank_non_increasing O geb geb_total keyB).
  - intros kb rest E k l i Hk Hw Hi.
    destruct (Hin k l Hk Hw) as (b & rest' & Eb & Hib).
    apply geb_trans with (b := keyB (k, b)).
    + rewrite HB in E.
      apply (rank_head_maximal O geb geb_total geb_trans keyB _ kb rest E (k, b)).
      apply Permutation_in with (l := best h); [rewrite HB; apply rank_permutation | exact Hib].
    + cbn [snd]. apply (ranking_head_max l b rest' Eb i Hi).
Qed.

End Html.
End WithNames.

(* ================================================================== *)
(* 8. a finishing schedule exists                                      *)
(* ================================================================== *)
Lemma run_app (p : poolT) s1 s2 : run p (s1 ++ s2) = run (run p s1) s2.
Proof. unfold run_schedule. apply fold_left_app. Qed.

Lemma run_cons (p : poolT) w s : run p (w :: s) = run (pstep p w) s.
Proof. reflexivity. Qed.

Lemma pstep0_take k q (ws : list wstT) (t : list evT) :
  pstep (mk_pool (k :: q) (WIdle :: ws) t) 0 = mk_pool q (WNamed k :: ws) t.
Proof. reflexivity. Qed.

Lemma pstep0_fail k q (ws : list wstT) (t : list evT) : window k = None ->
  pstep (mk_pool q (WNamed k :: ws) t) 0 = mk_pool q (WIdle :: ws) t.
Proof. intro H. unfold pool_step. cbn [workers nth_error queue trace set_nth]. rewrite H. reflexivity. Qed.

Lemma pstep0_read k l q (ws : list wstT) (t : list evT) : window k = Some l ->
  pstep (mk_pool q (WNamed k :: ws) t) 0 = mk_pool q (WRead k l :: ws) t.
Proof. intro H. unfold pool_step. cbn [workers nth_error queue trace set_nth]. rewrite H. reflexivity. Qed.

Lemma pstep0_begin k l q (ws : list wstT) (t : list evT) :
  pstep (mk_pool q (WRead k l :: ws) t) 0 = mk_pool q (WAsset k l 0 :: ws) (t ++ [EAssetBegin k]).
Proof. reflexivity. Qed.

Lemma pstep0_write k l i q (ws : list wstT) (t : list evT) : i < nstrat ->
  pstep (mk_pool q (WAsset k l i :: ws) t) 0
  = mk_pool q (WAsset k l (S i) :: ws) (t ++ [EWrite k i (eval i l)]).
Proof.
  intro H. unfold pool_step. cbn [workers nth_error queue trace set_nth].
  destruct (Nat.ltb_spec i nstrat); [reflexivity|lia].
Qed.

Lemma pstep0_end k l q (ws : list wstT) (t : list evT) :
  pstep (mk_pool q (WAsset k l nstrat :: ws) t) 0 = mk_pool q (WIdle :: ws) (t ++ [EAssetEnd k]).
Proof.
  unfold pool_step. cbn [workers nth_error queue trace set_nth].
  destruct (Nat.ltb_spec nstrat nstrat); [lia|reflexivity].
Qed.

Lemma drain_writes q k l (ws : list wstT) d : forall i (t : list evT), i + d = nstrat ->
  exists t', run (mk_pool q (WAsset k l i :: ws) t) (repeat 0 d) = mk_pool q (WAsset k l nstrat :: ws) t'.
Proof.
  induction d as [|d IH]; intros i t H.
  - exists t. replace i with nstrat by lia. reflexivity.
  - cbn [repeat]. rewrite run_cons, pstep0_write by lia. apply IH. lia.
Qed.

Lemma drain_one k q (ws : list wstT) (t : list evT) :
  exists s t', run (mk_pool (k :: q) (WIdle :: ws) t) s = mk_pool q (WIdle :: ws) t'.
Proof.
  destruct (window k) as [l|] eqn:Hw.
  - destruct (drain_writes q k l ws nstrat 0 (t ++ [EAssetBegin k]) eq_refl) as (t' & E).
    exists (0 :: 0 :: 0 :: repeat 0 nstrat ++ [0]). eexists.
    rewrite run_cons, pstep0_take, run_cons, (pstep0_read k l) by exact Hw.
    rewrite run_cons, pstep0_begin, run_app, E, run_cons, pstep0_end. reflexivity.
  - exists [0; 0]. eexists. rewrite run_cons, pstep0_take, run_cons, pstep0_fail by exact Hw. reflexivity.
Qed.

Lemma drain q (ws : list wstT) : forall t : list evT,
  exists s t', run (mk_pool q (WIdle :: ws) t) s = mk_pool [] (WIdle :: ws) t'.
Proof.
  induction q as [|k q IH]; intro t.
  - exists [], t. reflexivity.
  - destruct (drain_one k q ws t) as (s1 & t1 & E1). destruct (IH t1) as (s2 & t2 & E2).
    exists (s1 ++ s2), t2. rewrite run_app, E1, E2. reflexivity.
Qed.

Lemma pstep_done_at (ws1 ws2 : list wstT) (t : list evT) :
  pstep (mk_pool [] (ws1 ++ WIdle :: ws2) t) (length ws1) = mk_pool [] (ws1 ++ WDone :: ws2) t.
Proof.
  unfold pool_step. cbn [workers queue trace].
  rewrite nth_error_app2 by lia. rewrite Nat.sub_diag. cbn [nth_error]. rewrite set_nth_app. reflexivity.
Qed.

Lemma all_done m : forall a (t : list evT),
  run (mk_pool [] (repeat WDone a ++ repeat WIdle m) t) (seq a m) = mk_pool [] (repeat WDone (a + m)) t.
Proof.
  induction m as [|m IH]; intros a t.
  - cbn [repeat seq]. rewrite app_nil_r, Nat.add_0_r. reflexivity.
  - cbn [repeat seq]. rewrite run_cons.
    pose proof (pstep_done_at (repeat WDone a) (repeat WIdle m) t) as H.
    rewrite repeat_length in H. rewrite H.
    change (WDone :: repeat WIdle m) with ([@WDone Snap] ++ repeat WIdle m).
    rewrite app_assoc, <- repeat_cons.
    change (WDone :: repeat WDone a) with (repeat (@WDone Snap) (S a)).
    rewrite IH. replace (S a + m) with (a + S m) by lia. reflexivity.
Qed.

Lemma forallb_repeat_done m :
  forallb (fun st : wstT => match st with WDone => true | _ => false end) (repeat WDone m) = true.
Proof. induction m as [|m IH]; [reflexivity|exact IH]. Qed.

Theorem schedule_exists n names :
  n >= 1 -> exists sched, finished (run (init_pool n names) sched) = true.
Proof.
  intro Hn. destruct n as [|n]; [lia|].
  unfold init_pool. cbn [repeat].
  destruct (drain names (repeat WIdle n) [EBegin names]) as (s & t' & E).
  exists (s ++ seq 0 (S n)). rewrite run_app, E.
  change (WIdle :: repeat WIdle n) with (repeat (@WDone Snap) 0 ++ repeat WIdle (S n)).
  rewrite all_done. unfold finished. cbn [queue workers]. apply forallb_repeat_done.
Qed.

End Runs.

(* ================================================================== *)
(* 8 (continued). a concrete run: three names, the second unreadable   *)
(* ================================================================== *)
Definition ex_window (k : nat) : option (list Z) :=
  match k with 0 => Some [1; 2; 3]%Z | 2 => Some [4%Z] | _ => None end.
Definition ex_eval (i : nat) (l : list Z) : Z := (Z.of_nat i * 100 + fold_right Z.add 0 l)%Z.
Definition ex_readable (k : nat) : bool := match ex_window k with Some _ => true | None => false end.
Definition round_robin (rounds : nat) : list nat := concat (repeat [0; 1] rounds).
Definition ex_pool := run_schedule ex_window ex_eval 2 (init_pool 2 [0; 1; 2]) (round_robin 10).

Example schedule_example :
  finished ex_pool = true
  /\ protocol_ok 2 [0; 1; 2] ex_readable (map erase (run_trace ex_pool)) = true
  /\ run_trace ex_pool
     = [EBegin [0; 1; 2]; EAssetBegin 0; EWrite 0 0 6%Z; EWrite 0 1 106%Z; EAssetBegin 2; EAssetEnd 0;
        EWrite 2 0 4%Z; EWrite 2 1 104%Z; EAssetEnd 2; EEnd]
  /\ data_report (run_trace ex_pool) = [(0, [(0, 6%Z); (1, 106%Z)]); (2, [(0, 4%Z); (1, 104%Z)])]
  /\ best (html_report Z (fun r => r) Z.geb (run_trace ex_pool)) = [(0, (1, 106%Z)); (2, (1, 104%Z))].
Proof. vm_compute. repeat split; reflexivity. Qed.

(* ================================================================== *)
(* 9. duplicate names break the protocol: NoDup is needed              *)
(* ================================================================== *)
Definition dup_pool := run_schedule (fun _ => Some [1%Z]) ex_eval 1 (init_pool 2 [0; 0]) (round_robin 6).

Example duplicates_refuted :
  finished dup_pool = true
  /\ protocol_ok 1 [0; 0] (fun _ => true) (map erase (run_trace dup_pool)) = false
  /\ map erase (run_trace dup_pool)
     = [CBegin; CAssetBegin 0; CAssetBegin 0; CWrite 0 0; CWrite 0 0; CAssetEnd 0; CAssetEnd 0; CEnd]
  /\ events_of 0 (run_trace dup_pool) <> asset_events (fun _ => Some [1%Z]) ex_eval 1 0.
Proof. vm_compute. repeat split; try reflexivity. discriminate. Qed.

(* ================================================================== *)
Print Assumptions per_asset_events.
Print Assumptions begin_first_end_last.
Print Assumptions protocol_holds.
Print Assumptions same_results_any_workers.
Print Assumptions data_report_independent.
Print Assumptions data_report_depends_only_on_events_of.
Print Assumptions rank_permutation.
Print Assumptions rank_non_increasing.
Print Assumptions rank_head_maximal.
Print Assumptions truncating_comparator_refuted.
Print Assumptions html_best_is_each_assets_maximum.
Print Assumptions schedule_exists.
Print Assumptions schedule_example.
Print Assumptions duplicates_refuted.
