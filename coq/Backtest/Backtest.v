(* C13: backtest.Backtest.Run as a pool of workers that take asset names from a shared queue, read the asset's snapshots
   inside the look-back window, and drive the report through AssetBegin / Write (one per strategy, in order) / AssetEnd,
   each report call being one atomic step of the worker that makes it; Begin comes before the workers start and End after
   all of them have finished.  The two bundled reports are folds over the resulting sequence of report calls.
   Names and strategies are natural-number identifiers (strategy i is the i-th entry of Backtest.Strategies).
   Definitions only (this file must keep running when a proof breaks). *)
From Coq Require Import List ZArith Bool Lia.
Import ListNotations.

Section Backtest.
Context {Snap Res : Type}.
Variable window : nat -> option (list Snap).   (* repository.GetSince(name, now - LastDays): None is a read error *)
Variable eval : nat -> list Snap -> Res.       (* strategy i evaluated directly on the snapshots (ComputeWithOutcome) *)
Variable nstrat : nat.                         (* number of strategies (>= 1: Run installs buy-and-hold when none is given) *)

Inductive event :=
| EBegin (names : list nat)
| EAssetBegin (k : nat)
| EWrite (k : nat) (i : nat) (r : Res)
| EAssetEnd (k : nat)
| EEnd.

Inductive wstate :=
| WIdle                                          (* about to take a name from the queue *)
| WNamed (k : nat)                               (* next: repository.GetSince *)
| WRead (k : nat) (snaps : list Snap)            (* next: report.AssetBegin *)
| WAsset (k : nat) (snaps : list Snap) (i : nat) (* next: report.Write for strategy i, or report.AssetEnd when i = nstrat *)
| WDone.

Record pool := mk_pool { queue : list nat; workers : list wstate; trace : list event }.   (* trace: oldest first *)

Fixpoint set_nth {A} (i : nat) (x : A) (l : list A) : list A :=
  match l, i with
  | [], _ => []
  | _ :: l', O => x :: l'
  | y :: l', S i' => y :: set_nth i' x l'
  end.

Definition init_pool (n : nat) (names : list nat) : pool := mk_pool names (repeat WIdle n) [EBegin names].

Definition pool_step (p : pool) (w : nat) : pool :=
  match nth_error (workers p) w with
  | None => p
  | Some st =>
      let setw st' := set_nth w st' (workers p) in
      match st with
      | WIdle => match queue p with
                 | [] => mk_pool [] (setw WDone) (trace p)
                 | k :: q => mk_pool q (setw (WNamed k)) (trace p)
                 end
      | WNamed k => match window k with
                    | None => mk_pool (queue p) (setw WIdle) (trace p)           (* logged, asset skipped *)
                    | Some l => mk_pool (queue p) (setw (WRead k l)) (trace p)
                    end
      | WRead k l => mk_pool (queue p) (setw (WAsset k l 0)) (trace p ++ [EAssetBegin k])
      | WAsset k l i =>
          if Nat.ltb i nstrat then mk_pool (queue p) (setw (WAsset k l (S i))) (trace p ++ [EWrite k i (eval i l)])
          else mk_pool (queue p) (setw WIdle) (trace p ++ [EAssetEnd k])
      | WDone => p
      end
  end.

Definition run_schedule (p : pool) (sched : list nat) : pool := fold_left pool_step sched p.

Definition finished (p : pool) : bool :=
  match queue p with [] => forallb (fun st => match st with WDone => true | _ => false end) (workers p) | _ => false end.

(* the sequence of report calls of a finished run *)
Definition run_trace (p : pool) : list event := trace p ++ [EEnd].

(* a fair schedule that finishes a run of n workers: used to run the pool on concrete cases *)
Fixpoint round_robin_sched (n rounds : nat) : list nat :=
  match rounds with O => [] | S r => seq 0 n ++ round_robin_sched n r end.

(* one worker, no interleaving: the reference *)
Definition asset_events (k : nat) : list event :=
  match window k with
  | None => []
  | Some l => EAssetBegin k :: map (fun i => EWrite k i (eval i l)) (seq 0 nstrat) ++ [EAssetEnd k]
  end.
Definition sequential_trace (names : list nat) : list event :=
  EBegin names :: flat_map asset_events names ++ [EEnd].

(* the calls that concern one asset, in order *)
Definition about (k : nat) (e : event) : bool :=
  match e with EAssetBegin k' | EWrite k' _ _ | EAssetEnd k' => Nat.eqb k k' | _ => false end.
Definition events_of (k : nat) (t : list event) : list event := filter (about k) t.

(* ---- protocol, on traces without the result values (what a recording report observes) ---- *)
Inductive call := CBegin | CAssetBegin (k : nat) | CWrite (k : nat) (i : nat) | CAssetEnd (k : nat) | CEnd.
Definition erase (e : event) : call :=
  match e with EBegin _ => CBegin | EAssetBegin k => CAssetBegin k | EWrite k i _ => CWrite k i | EAssetEnd k => CAssetEnd k | EEnd => CEnd end.

Definition call_about (k : nat) (c : call) : bool :=
  match c with CAssetBegin k' | CWrite k' _ | CAssetEnd k' => Nat.eqb k k' | _ => false end.
Definition call_eqb (a b : call) : bool :=
  match a, b with
  | CBegin, CBegin | CEnd, CEnd => true
  | CAssetBegin x, CAssetBegin y | CAssetEnd x, CAssetEnd y => Nat.eqb x y
  | CWrite x i, CWrite y j => Nat.eqb x y && Nat.eqb i j
  | _, _ => false
  end.
Fixpoint calls_eqb (a b : list call) : bool :=
  match a, b with [] , [] => true | x :: a', y :: b' => call_eqb x y && calls_eqb a' b' | _, _ => false end.

Definition expected_calls (readable : nat -> bool) (k : nat) : list call :=
  if readable k then CAssetBegin k :: map (CWrite k) (seq 0 nstrat) ++ [CAssetEnd k] else [].

(* Begin first, End last and nowhere else; for every requested name the calls about it are exactly
   AssetBegin, Write 0 .. Write (nstrat-1), AssetEnd in this order (none for an unreadable asset); no call about any other name *)
Definition is_inner (c : call) : bool := match c with CBegin | CEnd => false | _ => true end.
Definition name_of (c : call) : option nat :=
  match c with CAssetBegin k | CWrite k _ | CAssetEnd k => Some k | _ => None end.
Definition protocol_ok (names : list nat) (readable : nat -> bool) (t : list call) : bool :=
  match t with
  | CBegin :: rest =>
      match rev rest with
      | CEnd :: rinner =>
          let inner := rev rinner in
          forallb is_inner inner
          && forallb (fun k => calls_eqb (filter (call_about k) inner) (expected_calls readable k)) names
          && forallb (fun c => match name_of c with Some k => existsb (Nat.eqb k) names | None => true end) inner
      | _ => false
      end
  | _ => false
  end.

(* ---- the data report: results per asset, in the order written ---- *)
Fixpoint upd {V} (k : nat) (v : V) (m : list (nat * V)) : list (nat * V) :=
  match m with
  | [] => [(k, v)]
  | (k', v') :: m' => if Nat.eqb k k' then (k, v) :: m' else (k', v') :: upd k v m'
  end.
Fixpoint get {V} (k : nat) (m : list (nat * V)) : option V :=
  match m with [] => None | (k', v) :: m' => if Nat.eqb k k' then Some v else get k m' end.

Definition data_step (m : list (nat * list (nat * Res))) (e : event) : list (nat * list (nat * Res)) :=
  match e with
  | EAssetBegin k => upd k [] m
  | EWrite k i r => upd k (match get k m with Some l => l ++ [(i, r)] | None => [(i, r)] end) m
  | _ => m
  end.
Definition data_report (t : list event) : list (nat * list (nat * Res)) := fold_left data_step t [].

(* ---- ranking ---- *)
Variable O : Type.                     (* outcomes *)
Variable outcome : Res -> O.
Variable geb : O -> O -> bool.         (* a >= b *)

(* slices.SortFunc is an insertion sort up to 12 elements; the statement of the property only needs a sorted permutation *)
Fixpoint insert_desc {A} (key : A -> O) (x : A) (l : list A) : list A :=
  match l with
  | [] => [x]
  | y :: l' => if geb (key y) (key x) then y :: insert_desc key x l' else x :: l
  end.
Definition rank {A} (key : A -> O) (l : list A) : list A := fold_left (fun acc x => insert_desc key x acc) l [].

Fixpoint non_increasing (l : list O) : bool :=
  match l with
  | a :: ((b :: _) as l') => geb a b && non_increasing l'
  | _ => true
  end.

(* the HTML report: per-asset ranking at AssetEnd, whose head joins the best list; the best list is ranked at End *)
Record html := mk_html { open_assets : list (nat * list (nat * Res)); asset_rankings : list (nat * list (nat * Res)); best : list (nat * (nat * Res)) }.
Definition html_step (h : html) (e : event) : html :=
  match e with
  | EAssetBegin k => mk_html (upd k [] (open_assets h)) (asset_rankings h) (best h)
  | EWrite k i r => mk_html (upd k (match get k (open_assets h) with Some l => l ++ [(i, r)] | None => [(i, r)] end) (open_assets h)) (asset_rankings h) (best h)
  | EAssetEnd k =>
      match get k (open_assets h) with
      | Some l => let ranked := rank (fun ir => outcome (snd ir)) l in
                  mk_html (open_assets h) (upd k ranked (asset_rankings h))
                          (match ranked with b :: _ => best h ++ [(k, b)] | [] => best h end)
      | None => h
      end
  | EEnd => mk_html (open_assets h) (asset_rankings h) (rank (fun kb => outcome (snd (snd kb))) (best h))
  | EBegin _ => h
  end.
Definition html_report (t : list event) : html := fold_left html_step t (mk_html [] [] []).

End Backtest.
