(* C12: proofs about the model of asset.Sync.Run in Sync.v.
   1-4: what one job / one sequential run copies; idempotence on date-sorted sources;
   5-6: every finishing schedule of the worker pool agrees with the sequential run (for duplicate-free name lists), and
        a finishing schedule exists;
   7-8: concrete runs (duplicates in the name list break the agreement; a two-asset example with one failure). *)
From Coq Require Import List ZArith Bool Lia Permutation Sorted.
Import ListNotations.
From Verif Require Import Repo.Repo Sync.Sync.

Section SyncProofs.
Context {S : Type} (date : S -> Z).

Notation env := (env (S:=S)).
Notation spec := (spec (S:=S)).
Notation pool := (pool (S:=S)).
Notation wstate := (wstate (S:=S)).

(* ------------------------------------------------------------------------------------------------------------ *)
(* vocabulary                                                                                                    *)

(* what the target holds for [k] (nothing when the asset is unknown) *)
Definition prev_of (tgt : spec) (k : nat) : list S := match lookup k tgt with Some l => l | None => [] end.
(* what the source holds for [k] *)
Definition src_of (e : env) (k : nat) : list S := match lookup k (src e) with Some l => l | None => [] end.

(* the job for [k] fails: the source read fails, the source does not know the asset, or the append fails *)
Definition fails (e : env) (k : nat) : Prop :=
  fail_get e k = true \/ lookup k (src e) = None \/ fail_app e k = true.
Definition failsb (e : env) (k : nat) : bool :=
  fail_get e k || match lookup k (src e) with Some _ => false | None => true end || fail_app e k.

Lemma failsb_true e k : failsb e k = true <-> fails e k.
Proof.
  unfold failsb, fails. destruct (fail_get e k), (lookup k (src e)), (fail_app e k); cbn; split; intros H; auto;
    try discriminate; destruct H as [H|[H|H]]; discriminate.
Qed.

Lemma failsb_false e k :
  failsb e k = false <-> fail_get e k = false /\ (exists l, lookup k (src e) = Some l) /\ fail_app e k = false.
Proof.
  unfold failsb. destruct (fail_get e k), (lookup k (src e)) as [l|], (fail_app e k); cbn; split; intros H; auto;
    try discriminate; try (destruct H as (H1 & [l' H2] & H3); discriminate).
  split; [reflexivity | split; [exists l; reflexivity | reflexivity]].
Qed.

Lemma fails_dec e k : fails e k \/ ~ fails e k.
Proof. rewrite <- failsb_true. destruct (failsb e k); [left; reflexivity | right; discriminate]. Qed.

(* the binding of [k] after its job, as a function of the binding before *)
Definition fin (e : env) (tgt : spec) (k : nat) : option (list S) :=
  if failsb e k then lookup k tgt
  else Some (prev_of tgt k ++ since date (start_of date e tgt k) (src_of e k)).

(* the start date depends on the target only through the binding of [k] *)
Lemma start_of_ext e t1 t2 k : lookup k t1 = lookup k t2 -> start_of date e t1 k = start_of date e t2 k.
Proof. unfold start_of. intros ->. reflexivity. Qed.
Lemma prev_of_ext t1 t2 k : lookup k t1 = lookup k t2 -> prev_of t1 k = prev_of t2 k.
Proof. unfold prev_of. intros ->. reflexivity. Qed.
Lemma fin_ext e t1 t2 k : lookup k t1 = lookup k t2 -> fin e t1 k = fin e t2 k.
Proof. intros H. unfold fin. rewrite (start_of_ext e t1 t2 k H), (prev_of_ext t1 t2 k H), H. reflexivity. Qed.

(* ------------------------------------------------------------------------------------------------------------ *)
(* 1. one job                                                                                                    *)

Lemma append_to_ok e tgt k l t' : append_to date e tgt k l = Some t' ->
  lookup k t' = Some (prev_of tgt k ++ l) /\ forall k', k' <> k -> lookup k' t' = lookup k' tgt.
Proof.
  unfold append_to. destruct (fail_app e k); [discriminate|]. intros H. injection H as <-.
  cbn [spec_step fst]. split.
  - rewrite lookup_update_same. unfold prev_of. destruct (lookup k tgt); reflexivity.
  - intros k' Hne. apply lookup_update_other. intros Heq. apply Hne. symmetry. exact Heq.
Qed.

Theorem job_spec (e : env) (tgt : spec) (k : nat) :
  (forall l, fail_get e k = false -> lookup k (src e) = Some l -> fail_app e k = false ->
     exists t', job date e tgt k = (t', false) /\
                lookup k t' = Some (prev_of tgt k ++ since date (start_of date e tgt k) l) /\
                forall k', k' <> k -> lookup k' t' = lookup k' tgt) /\
  (fail_get e k = true \/ lookup k (src e) = None \/ fail_app e k = true -> job date e tgt k = (tgt, true)).
Proof.
  split.
  - intros l Hg Hs Ha. unfold job, get_since. rewrite Hg, Hs.
    destruct (append_to date e tgt k (since date (start_of date e tgt k) l)) as [t'|] eqn:E.
    + exists t'. destruct (append_to_ok _ _ _ _ _ E) as [H1 H2]. auto.
    + unfold append_to in E. rewrite Ha in E. discriminate.
  - intros H. unfold job, get_since.
    destruct (fail_get e k) eqn:Hg; [reflexivity|].
    destruct (lookup k (src e)) as [l|] eqn:Hs; [|reflexivity].
    unfold append_to. destruct (fail_app e k) eqn:Ha; [reflexivity|].
    destruct H as [H|[H|H]]; discriminate.
Qed.

(* the same, in one piece *)
Lemma job_fin e tgt k :
  snd (job date e tgt k) = failsb e k /\
  lookup k (fst (job date e tgt k)) = fin e tgt k /\
  forall k', k' <> k -> lookup k' (fst (job date e tgt k)) = lookup k' tgt.
Proof.
  destruct (job_spec e tgt k) as [Hok Hfail]. unfold fin.
  destruct (failsb e k) eqn:F.
  - apply failsb_true in F. rewrite (Hfail F). cbn. auto.
  - apply failsb_false in F. destruct F as (Hg & [l Hs] & Ha).
    destruct (Hok l Hg Hs Ha) as (t' & -> & H1 & H2). cbn [fst snd].
    unfold src_of. rewrite Hs. auto.
Qed.

(* ------------------------------------------------------------------------------------------------------------ *)
(* 2. the sequential run                                                                                         *)

Lemma run_jobs_fin e ks : forall tgt, NoDup ks ->
  (forall k, In k ks -> lookup k (fst (run_jobs date e tgt ks)) = fin e tgt k) /\
  (forall k, ~ In k ks -> lookup k (fst (run_jobs date e tgt ks)) = lookup k tgt) /\
  snd (run_jobs date e tgt ks) = existsb (failsb e) ks.
Proof.
  induction ks as [|k0 ks IH]; intros tgt Hnd.
  - cbn. split; [intros k []|]. split; reflexivity.
  - inversion Hnd as [|? ? Hnotin Hnd']; subst.
    cbn [run_jobs existsb].
    destruct (job_fin e tgt k0) as (Jerr & Jk & Jother).
    destruct (job date e tgt k0) as [t1 e1]. cbn [fst snd] in *.
    destruct (IH t1 Hnd') as (IHin & IHout & IHerr).
    destruct (run_jobs date e t1 ks) as [t2 e2]. cbn [fst snd] in *.
    split; [|split].
    + intros k [->|Hin].
      * rewrite (IHout k Hnotin). exact Jk.
      * rewrite (IHin k Hin). apply fin_ext. apply Jother. intros ->. contradiction.
    + intros k Hn. rewrite IHout by (intros H; apply Hn; right; exact H).
      apply Jother. intros ->. apply Hn. left. reflexivity.
    + rewrite Jerr, IHerr. reflexivity.
Qed.

Lemma existsb_failsb e ks : existsb (failsb e) ks = true <-> exists k, In k ks /\ fails e k.
Proof.
  rewrite existsb_exists. split; intros (k & Hin & H); exists k; (split; [exact Hin|]); apply failsb_true; exact H.
Qed.

Theorem run_jobs_spec (e : env) (tgt : spec) (ks : list nat) (t' : spec) (err : bool) :
  NoDup ks -> run_jobs date e tgt ks = (t', err) ->
  (forall k l, In k ks -> fail_get e k = false -> lookup k (src e) = Some l -> fail_app e k = false ->
     lookup k t' = Some (prev_of tgt k ++ since date (start_of date e tgt k) l)) /\
  (forall k, In k ks -> (fail_get e k = true \/ lookup k (src e) = None \/ fail_app e k = true) ->
     lookup k t' = lookup k tgt) /\
  (forall k, ~ In k ks -> lookup k t' = lookup k tgt) /\
  (err = true <-> exists k, In k ks /\ (fail_get e k = true \/ lookup k (src e) = None \/ fail_app e k = true)).
Proof.
  intros Hnd Hrun. destruct (run_jobs_fin e ks tgt Hnd) as (Hin & Hout & Herr).
  rewrite Hrun in *. cbn [fst snd] in *.
  split; [|split; [|split]].
  - intros k l Hk Hg Hs Ha. rewrite (Hin k Hk). unfold fin.
    assert (F : failsb e k = false) by (apply failsb_false; eauto).
    rewrite F. unfold src_of. rewrite Hs. reflexivity.
  - intros k Hk Hf. rewrite (Hin k Hk). unfold fin.
    assert (F : failsb e k = true) by (apply failsb_true; exact Hf).
    rewrite F. reflexivity.
  - exact Hout.
  - rewrite Herr. apply existsb_failsb.
Qed.

(* ------------------------------------------------------------------------------------------------------------ *)
(* 3. what is copied is exactly what the target is missing                                                       *)

Lemma since_succ_is_after d (l : list S) : since date (d + 1) l = filter (fun s => Z.ltb d (date s)) l.
Proof.
  unfold since. apply filter_ext. intros s.
  destruct (Z.leb_spec (d + 1) (date s)), (Z.ltb_spec d (date s)); try reflexivity; lia.
Qed.

Lemma start_of_last e tgt k prev s_last : lookup k tgt = Some (prev ++ [s_last]) ->
  start_of date e tgt k = (date s_last + 1)%Z.
Proof. intros H. unfold start_of, last_date. rewrite H, rev_app_distr. reflexivity. Qed.

Lemma start_of_none e tgt k : lookup k tgt = None \/ lookup k tgt = Some [] -> start_of date e tgt k = dflt e.
Proof. intros [H|H]; unfold start_of; rewrite H; reflexivity. Qed.

Theorem copied_is_exactly_the_missing (e : env) (tgt : spec) (ks : list nat) (k : nat) (l : list S) :
  NoDup ks -> In k ks ->
  fail_get e k = false -> lookup k (src e) = Some l -> fail_app e k = false ->
  let t' := fst (run_jobs date e tgt ks) in
  (forall prev s_last, lookup k tgt = Some (prev ++ [s_last]) ->
     lookup k t' = Some ((prev ++ [s_last]) ++ filter (fun s => Z.ltb (date s_last) (date s)) l)) /\
  (lookup k tgt = None \/ lookup k tgt = Some [] ->
     lookup k t' = Some (filter (fun s => Z.leb (dflt e) (date s)) l)).
Proof.
  intros Hnd Hk Hg Hs Ha t'.
  destruct (run_jobs date e tgt ks) as [t1 err] eqn:Hrun.
  destruct (run_jobs_spec e tgt ks t1 err Hnd Hrun) as (Hok & _).
  specialize (Hok k l Hk Hg Hs Ha). subst t'. cbn [fst].
  split.
  - intros prev s_last Ht. rewrite Hok. rewrite (start_of_last e tgt k prev s_last Ht).
    unfold prev_of. rewrite Ht. rewrite since_succ_is_after. reflexivity.
  - intros Ht. rewrite Hok. rewrite (start_of_none e tgt k Ht).
    unfold prev_of. destruct Ht as [Ht|Ht]; rewrite Ht; reflexivity.
Qed.

(* ------------------------------------------------------------------------------------------------------------ *)
(* 4. a second run changes nothing, provided the source lists are in date order                                  *)

Definition sorted_by_date (l : list S) : Prop := StronglySorted (fun a b => (date a <= date b)%Z) l.

Lemma In_since d (l : list S) s : In s (since date d l) <-> In s l /\ (d <= date s)%Z.
Proof. unfold since. rewrite filter_In. rewrite Z.leb_le. reflexivity. Qed.

(* the last snapshot copied from a date-sorted list carries the greatest date of the whole list *)
Lemma since_last_is_max d (l : list S) : sorted_by_date l -> forall m x, since date d l = m ++ [x] ->
  Forall (fun s => (date s <= date x)%Z) l.
Proof.
  induction 1 as [|a l Hs IH Ha]; intros m x E; [constructor|].
  assert (Hx : In x (since date d (a :: l))) by (rewrite E; apply in_or_app; right; left; reflexivity).
  unfold since in E. cbn [filter] in E. fold (since date d l) in E.
  rewrite Forall_forall in Ha.
  destruct (Z.leb_spec d (date a)) as [Hle|Hlt].
  - destruct (since date d l) as [|y r] eqn:El.
    + destruct m as [|? [|? ?]]; cbn in E; try discriminate. injection E as <-.
      constructor; [lia|]. apply Forall_forall. intros s Hin.
      destruct (Z.le_gt_cases d (date s)) as [H1|H1]; [|lia].
      assert (In s (since date d l)) by (apply In_since; auto). rewrite El in H. destruct H.
    + destruct m as [|a' m']; cbn in E.
      * destruct r; discriminate.
      * injection E as <- E'. constructor; [|exact (IH m' x E')].
        apply Ha. assert (In x (since date d l)) by (rewrite El, E'; apply in_or_app; right; left; reflexivity).
        apply In_since in H. tauto.
  - constructor; [|exact (IH m x E)].
    apply Ha. assert (In x (since date d l)) by (rewrite E; apply in_or_app; right; left; reflexivity).
    apply In_since in H. tauto.
Qed.

Lemma since_nil_of_lt d (l : list S) : Forall (fun s => (date s < d)%Z) l -> since date d l = [].
Proof.
  induction 1 as [|a l Ha _ IH]; [reflexivity|]. unfold since in *. cbn [filter].
  destruct (Z.leb_spec d (date a)); [lia | exact IH].
Qed.

Lemma list_nil_or_last {A} (l : list A) : l = [] \/ exists m x, l = m ++ [x].
Proof. destruct l as [|a l] using rev_ind; [left; reflexivity | right; exists l, a; reflexivity]. Qed.

(* the binding a job leaves is a fixed point of the job *)
Lemma fin_fixed e tgt t' k :
  (forall l, lookup k (src e) = Some l -> sorted_by_date l) ->
  lookup k t' = fin e tgt k -> fin e t' k = lookup k t'.
Proof.
  intros Hsorted Ht'. unfold fin in *. destruct (failsb e k) eqn:F; [reflexivity|].
  apply failsb_false in F. destruct F as (_ & [l Hs] & _).
  unfold src_of in *. rewrite Hs in *. specialize (Hsorted l eq_refl).
  set (app := since date (start_of date e tgt k) l) in *.
  assert (Hprev : prev_of t' k = prev_of tgt k ++ app) by (unfold prev_of at 1; rewrite Ht'; reflexivity).
  rewrite Ht', Hprev.
  assert (Hnil : since date (start_of date e t' k) l = []); [|rewrite Hnil, app_nil_r; reflexivity].
  destruct (list_nil_or_last app) as [Happ|(m & x & Happ)].
  - (* nothing was copied: the start date is what it was *)
    assert (Hst : start_of date e t' k = start_of date e tgt k).
    { unfold start_of. rewrite Ht', Happ, app_nil_r. unfold prev_of.
      destruct (lookup k tgt); reflexivity. }
    rewrite Hst. exact Happ.
  - (* something was copied: the start date is now past every date in the source *)
    assert (Hst : start_of date e t' k = (date x + 1)%Z).
    { unfold start_of, last_date. rewrite Ht', Happ, app_assoc, rev_app_distr. reflexivity. }
    rewrite Hst. apply since_nil_of_lt.
    pose proof (since_last_is_max _ l Hsorted m x Happ) as Hmax.
    eapply Forall_impl; [|exact Hmax]. cbn. intros; lia.
Qed.

Theorem sync_idempotent (e : env) (tgt : spec) (ks : list nat) :
  NoDup ks ->
  (forall k l, In k ks -> lookup k (src e) = Some l -> sorted_by_date l) ->
  let t' := fst (run_jobs date e tgt ks) in
  same_contents (fst (run_jobs date e t' ks)) t' /\
  snd (run_jobs date e t' ks) = snd (run_jobs date e tgt ks).
Proof.
  intros Hnd Hsorted t'.
  destruct (run_jobs_fin e ks tgt Hnd) as (Hin1 & Hout1 & Herr1).
  destruct (run_jobs_fin e ks t' Hnd) as (Hin2 & Hout2 & Herr2).
  split.
  - intros k. destruct (in_dec Nat.eq_dec k ks) as [Hk|Hk].
    + rewrite (Hin2 k Hk). apply (fin_fixed e tgt t' k).
      * intros l. apply Hsorted. exact Hk.
      * apply Hin1. exact Hk.
    + apply Hout2. exact Hk.
  - rewrite Herr1, Herr2. reflexivity.
Qed.

(* what a run appends has no duplicates when the source has none, lies strictly after the target's last date,
   and therefore (when the target's own dates do not exceed its last date) is no copy of anything already there *)
Theorem no_duplicates_added (e : env) (tgt : spec) (ks : list nat) (k : nat) (l : list S) :
  NoDup ks -> In k ks ->
  fail_get e k = false -> lookup k (src e) = Some l -> fail_app e k = false ->
  exists app,
    lookup k (fst (run_jobs date e tgt ks)) = Some (prev_of tgt k ++ app) /\
    (NoDup l -> NoDup app) /\
    (NoDup (map date l) -> NoDup (map date app)) /\
    (forall s, In s app -> In s l) /\
    (forall prev s_last, lookup k tgt = Some (prev ++ [s_last]) ->
       forall s, In s app -> (date s_last < date s)%Z) /\
    (forall prev s_last, lookup k tgt = Some (prev ++ [s_last]) ->
       Forall (fun s' => (date s' <= date s_last)%Z) prev ->
       forall s s', In s app -> In s' (prev_of tgt k) -> (date s' < date s)%Z /\ s <> s').
Proof.
  intros Hnd Hk Hg Hs Ha.
  destruct (run_jobs date e tgt ks) as [t1 err] eqn:Hrun.
  destruct (run_jobs_spec e tgt ks t1 err Hnd Hrun) as (Hok & _).
  specialize (Hok k l Hk Hg Hs Ha). cbn [fst].
  exists (since date (start_of date e tgt k) l).
  assert (Hafter : forall prev s_last, lookup k tgt = Some (prev ++ [s_last]) ->
            forall s, In s (since date (start_of date e tgt k) l) -> (date s_last < date s)%Z).
  { intros prev s_last Ht s Hin. rewrite (start_of_last e tgt k prev s_last Ht) in Hin.
    apply In_since in Hin. lia. }
  split; [exact Hok|]. split; [|split; [|split; [|split]]].
  - intros H. unfold since. apply NoDup_filter. exact H.
  - intros H. unfold since. clear - H. induction l as [|a l IH]; cbn [filter map]; [constructor|].
    cbn [map] in H. inversion H as [|? ? Hn Hd]; subst.
    destruct (Z.leb _ (date a)); [|exact (IH Hd)].
    cbn [map]. constructor; [|exact (IH Hd)].
    intros Hin. apply Hn. apply in_map_iff in Hin. destruct Hin as (s & Hds & Hin).
    apply filter_In in Hin. apply in_map_iff. exists s. tauto.
  - intros s Hin. apply In_since in Hin. tauto.
  - exact Hafter.
  - intros prev s_last Ht Hprev s s' Hin Hin'.
    pose proof (Hafter prev s_last Ht s Hin) as Hlt.
    unfold prev_of in Hin'. rewrite Ht in Hin'.
    assert (Hle : (date s' <= date s_last)%Z).
    { apply in_app_or in Hin'. destruct Hin' as [Hin'|[<-|[]]]; [|lia].
      rewrite Forall_forall in Hprev. apply Hprev. exact Hin'. }
    split; [lia|]. intros ->. lia.
Qed.

(* ------------------------------------------------------------------------------------------------------------ *)
(* 5. the worker pool: every finishing schedule agrees with the sequential run                                   *)

(* the name a worker is holding *)
Definition name_of (st : wstate) : list nat :=
  match st with WNamed k => [k] | WStart k _ => [k] | WSnaps k _ => [k] | _ => [] end.
Definition held (ws : list wstate) : list nat := flat_map name_of ws.
(* the names whose job has not completed: still queued, or held by a worker *)
Definition active (p : pool) : list nat := queue p ++ held (workers p).

(* what a worker has read so far was read from the original binding *)
Definition wok (e : env) (tgt0 : spec) (st : wstate) : Prop :=
  match st with
  | WStart k s => s = start_of date e tgt0 k
  | WSnaps k l => get_since date e k (start_of date e tgt0 k) = Some l
  | _ => True
  end.

Record Inv (e : env) (tgt0 : spec) (ks : list nat) (p : pool) : Prop := mk_Inv {
  inv_nodup : NoDup (active p);
  inv_sub : forall k, In k (active p) -> In k ks;
  inv_active : forall k, In k (active p) -> lookup k (target p) = lookup k tgt0;
  inv_done : forall k, In k ks -> ~ In k (active p) -> lookup k (target p) = fin e tgt0 k;
  inv_out : forall k, ~ In k ks -> lookup k (target p) = lookup k tgt0;
  inv_wok : Forall (wok e tgt0) (workers p);
  inv_failed : failed p = true <-> exists k, In k ks /\ ~ In k (active p) /\ failsb e k = true
}.

Lemma held_repeat_idle n : held (repeat WIdle n) = [].
Proof. induction n; [reflexivity | exact IHn]. Qed.

Lemma Inv_init e tgt0 ks n : NoDup ks -> Inv e tgt0 ks (init_pool n ks tgt0).
Proof.
  intros Hnd.
  assert (Ha : active (init_pool n ks tgt0) = ks).
  { unfold active, init_pool. cbn [queue workers]. rewrite held_repeat_idle. apply app_nil_r. }
  constructor; rewrite ?Ha; cbn [init_pool target failed]; auto.
  - intros k H1 H2. contradiction.
  - clear. induction n; cbn; constructor; [exact I | assumption].
  - split; [discriminate|]. intros (k & H1 & H2 & _). contradiction.
Qed.

(* replacing the state of worker [w] replaces its held name and nothing else *)
Lemma held_set_nth ws : forall w st, nth_error ws w = Some st ->
  exists rest, Permutation (held ws) (name_of st ++ rest) /\
               forall st', Permutation (held (set_nth w st' ws)) (name_of st' ++ rest).
Proof.
  induction ws as [|a ws IH]; intros [|w] st E; cbn [nth_error] in E; try discriminate.
  - injection E as ->. exists (held ws). split; [reflexivity|]. intros st'. reflexivity.
  - destruct (IH w st E) as (rest & H1 & H2). exists (name_of a ++ rest). split.
    + cbn [held flat_map]. fold (held ws). rewrite H1. apply Permutation_app_swap_app.
    + intros st'. cbn [set_nth held flat_map]. fold (held (set_nth w st' ws)). rewrite (H2 st').
      apply Permutation_app_swap_app.
Qed.

Lemma Forall_set_nth {A} (P : A -> Prop) (l : list A) : forall w x, Forall P l -> P x -> Forall P (set_nth w x l).
Proof.
  induction l as [|a l IH]; intros w x Hl Hx; [destruct w; constructor|].
  inversion Hl; subst. destruct w; cbn [set_nth]; constructor; auto.
Qed.

(* a move that completes no job *)
Lemma Inv_same e tgt0 ks p p' : Inv e tgt0 ks p ->
  Permutation (active p') (active p) -> target p' = target p -> failed p' = failed p ->
  Forall (wok e tgt0) (workers p') -> Inv e tgt0 ks p'.
Proof.
  intros [I1 I2 I3 I4 I5 I6 I7] Hp Ht Hf Hw.
  assert (Hin : forall k, In k (active p') <-> In k (active p)).
  { intros k. split; apply Permutation_in; [exact Hp | symmetry; exact Hp]. }
  constructor; rewrite ?Ht, ?Hf; auto.
  - eapply Permutation_NoDup; [symmetry; exact Hp | exact I1].
  - intros k H. apply I2. apply Hin. exact H.
  - intros k H. apply I3. apply Hin. exact H.
  - intros k H1 H2. apply I4; [exact H1|]. intros H. apply H2. apply Hin. exact H.
  - rewrite I7. split; intros (k & H1 & H2 & H3); exists k; (split; [exact H1|]); (split; [|exact H3]);
      intros H; apply H2; apply Hin; exact H.
Qed.

(* a move that completes the job for [k] *)
Lemma Inv_finish e tgt0 ks p p' k : Inv e tgt0 ks p ->
  Permutation (active p) (k :: active p') ->
  lookup k (target p') = fin e tgt0 k ->
  (forall k', k' <> k -> lookup k' (target p') = lookup k' (target p)) ->
  failed p' = failed p || failsb e k ->
  Forall (wok e tgt0) (workers p') -> Inv e tgt0 ks p'.
Proof.
  intros [I1 I2 I3 I4 I5 I6 I7] Hp Hk Hother Hf Hw.
  assert (Hnd : NoDup (k :: active p')) by (eapply Permutation_NoDup; [exact Hp | exact I1]).
  inversion Hnd as [|? ? Hknot Hnd']; subst.
  assert (Hin : forall k', In k' (active p) <-> k' = k \/ In k' (active p')).
  { intros k'. split; intros H.
    - apply (Permutation_in _ Hp) in H. destruct H as [H|H]; [left; symmetry; exact H | right; exact H].
    - apply (Permutation_in _ (Permutation_sym Hp)). destruct H as [->|H]; [left; reflexivity | right; exact H]. }
  assert (Hkin : In k (active p)) by (apply Hin; left; reflexivity).
  assert (Hne : forall k', In k' (active p') -> k' <> k) by (intros k' H ->; contradiction).
  constructor; auto.
  - intros k' H. apply I2. apply Hin. right. exact H.
  - intros k' H. rewrite (Hother k' (Hne k' H)). apply I3. apply Hin. right. exact H.
  - intros k' H1 H2. destruct (Nat.eq_dec k' k) as [->|Hd]; [exact Hk|].
    rewrite (Hother k' Hd). apply I4; [exact H1|]. intros H. apply Hin in H. destruct H; contradiction.
  - intros k' H. assert (Hd : k' <> k) by (intros ->; apply H; apply I2; exact Hkin).
    rewrite (Hother k' Hd). apply I5. exact H.
  - rewrite Hf, orb_true_iff, I7. split.
    + intros [(k' & H1 & H2 & H3)|H].
      * exists k'. split; [exact H1|]. split; [|exact H3]. intros H. apply H2. apply Hin. right. exact H.
      * exists k. split; [apply I2; exact Hkin|]. split; [exact Hknot | exact H].
    + intros (k' & H1 & H2 & H3). destruct (Nat.eq_dec k' k) as [->|Hd]; [right; exact H3|].
      left. exists k'. split; [exact H1|]. split; [|exact H3]. intros H. apply Hin in H. destruct H; contradiction.
Qed.

Lemma get_since_none_fails e k s : get_since date e k s = None -> failsb e k = true.
Proof.
  unfold get_since, failsb. destruct (fail_get e k); [reflexivity|].
  destruct (lookup k (src e)); [discriminate | reflexivity].
Qed.

Lemma fin_of_failure e tgt0 k : failsb e k = true -> fin e tgt0 k = lookup k tgt0.
Proof. unfold fin. intros ->. reflexivity. Qed.

(* the invariant is preserved by every move of every worker *)
Lemma Inv_step e tgt0 ks p w : Inv e tgt0 ks p -> Inv e tgt0 ks (pool_step date e p w).
Proof.
  intros HI. unfold pool_step.
  destruct (nth_error (workers p) w) as [st|] eqn:En; [|exact HI].
  destruct (held_set_nth _ _ _ En) as (rest & Hheld & Hset).
  assert (Hst : wok e tgt0 st).
  { pose proof (inv_wok _ _ _ _ HI) as H. rewrite Forall_forall in H. apply H. eapply nth_error_In. exact En. }
  assert (Hws : forall st', wok e tgt0 st' -> Forall (wok e tgt0) (set_nth w st' (workers p))).
  { intros st' H. apply Forall_set_nth; [exact (inv_wok _ _ _ _ HI) | exact H]. }
  (* the held name, when there is one, is active and its binding is the original one *)
  assert (Hact : forall k, name_of st = [k] -> In k (active p) /\ lookup k (target p) = lookup k tgt0).
  { intros k Hn. assert (In k (active p)).
    { unfold active. apply in_or_app. right. apply (Permutation_in _ (Permutation_sym Hheld)).
      rewrite Hn. left. reflexivity. }
    split; [assumption | apply (inv_active _ _ _ _ HI); assumption]. }
  (* completing the job for the held name *)
  assert (Hfinish : forall k q' t' f', name_of st = [k] -> q' = queue p ->
            Permutation (active p) (k :: active (mk_pool q' (set_nth w WIdle (workers p)) t' f'))).
  { intros k q' t' f' Hn ->. unfold active. cbn [queue workers]. rewrite Hheld, (Hset WIdle), Hn. cbn [name_of app].
    symmetry. apply Permutation_middle. }
  destruct st as [|k|k s|k l|].
  - (* WIdle *)
    destruct (queue p) as [|k q] eqn:Eq.
    + apply (Inv_same e tgt0 ks p); [exact HI | | reflexivity | reflexivity | apply Hws; exact I].
      unfold active. cbn [queue workers]. rewrite Eq, Hheld, (Hset WDone). reflexivity.
    + apply (Inv_same e tgt0 ks p); [exact HI | | reflexivity | reflexivity | apply Hws; exact I].
      unfold active. cbn [queue workers]. rewrite Eq, Hheld, (Hset (WNamed k)). cbn [name_of app].
      symmetry. apply Permutation_middle.
  - (* WNamed: read the last date *)
    destruct (Hact k eq_refl) as [_ Hlk].
    apply (Inv_same e tgt0 ks p); [exact HI | | reflexivity | reflexivity | ].
    + unfold active. cbn [queue workers]. rewrite Hheld, (Hset (WStart k (start_of date e (target p) k))). reflexivity.
    + apply Hws. cbn [wok]. apply start_of_ext. exact Hlk.
  - (* WStart: read the source *)
    cbn [wok] in Hst. subst s. destruct (Hact k eq_refl) as [_ Hlk].
    destruct (get_since date e k (start_of date e tgt0 k)) as [l|] eqn:Eg.
    + apply (Inv_same e tgt0 ks p); [exact HI | | reflexivity | reflexivity | ].
      * unfold active. cbn [queue workers]. rewrite Hheld, (Hset (WSnaps k l)). reflexivity.
      * apply Hws. cbn [wok]. exact Eg.
    + pose proof (get_since_none_fails _ _ _ Eg) as F.
      apply (Inv_finish e tgt0 ks p _ k); cbn [target failed workers];
        [exact HI | apply Hfinish; reflexivity | | reflexivity | | apply Hws; exact I].
      * rewrite (fin_of_failure _ _ _ F). exact Hlk.
      * rewrite F, orb_true_r. reflexivity.
  - (* WSnaps: append *)
    cbn [wok] in Hst. destruct (Hact k eq_refl) as [_ Hlk].
    destruct (append_to date e (target p) k l) as [t'|] eqn:Ea.
    + destruct (append_to_ok _ _ _ _ _ Ea) as [H1 H2].
      assert (F : failsb e k = false).
      { unfold failsb. unfold get_since in Hst. unfold append_to in Ea.
        destruct (fail_get e k); [discriminate|]. destruct (lookup k (src e)); [|discriminate].
        destruct (fail_app e k); [discriminate | reflexivity]. }
      apply (Inv_finish e tgt0 ks p _ k); cbn [target failed workers];
        [exact HI | apply Hfinish; reflexivity | | exact H2 | | apply Hws; exact I].
      * rewrite H1. unfold fin. rewrite F. rewrite (prev_of_ext _ _ _ Hlk).
        unfold get_since in Hst. unfold src_of.
        destruct (fail_get e k); [discriminate|]. destruct (lookup k (src e)); [|discriminate].
        injection Hst as <-. reflexivity.
      * rewrite F, orb_false_r. reflexivity.
    + assert (F : failsb e k = true).
      { unfold failsb. unfold append_to in Ea. destruct (fail_app e k); [apply orb_true_r | discriminate]. }
      apply (Inv_finish e tgt0 ks p _ k); cbn [target failed workers];
        [exact HI | apply Hfinish; reflexivity | | reflexivity | | apply Hws; exact I].
      * rewrite (fin_of_failure _ _ _ F). exact Hlk.
      * rewrite F, orb_true_r. reflexivity.
  - (* WDone *)
    exact HI.
Qed.

Lemma Inv_run e tgt0 ks sched : forall p, Inv e tgt0 ks p -> Inv e tgt0 ks (run_schedule date e p sched).
Proof.
  induction sched as [|w sched IH]; intros p HI; [exact HI|].
  cbn [run_schedule fold_left]. apply IH. apply Inv_step. exact HI.
Qed.

Lemma finished_active (p : pool) : finished p = true -> active p = [].
Proof.
  unfold finished, active. destruct (queue p); [|discriminate]. cbn [app].
  induction (workers p) as [|st ws IH]; [reflexivity|].
  cbn [forallb held flat_map]. destruct st; try discriminate. cbn [name_of app andb]. exact IH.
Qed.

Theorem schedule_independent (e : env) (tgt : spec) (ks : list nat) (n : nat) (sched : list nat) :
  n >= 1 -> NoDup ks ->
  finished (run_schedule date e (init_pool n ks tgt) sched) = true ->
  same_contents (target (run_schedule date e (init_pool n ks tgt) sched)) (fst (run_jobs date e tgt ks)) /\
  failed (run_schedule date e (init_pool n ks tgt) sched) = snd (run_jobs date e tgt ks).
Proof.
  intros _ Hnd Hfin.
  pose proof (Inv_run e tgt ks sched _ (Inv_init e tgt ks n Hnd)) as HI.
  set (p := run_schedule date e (init_pool n ks tgt) sched) in *.
  pose proof (finished_active p Hfin) as Ha.
  destruct (run_jobs_fin e ks tgt Hnd) as (Hin & Hout & Herr).
  split.
  - intros k. destruct (in_dec Nat.eq_dec k ks) as [Hk|Hk].
    + rewrite (Hin k Hk). apply (inv_done _ _ _ _ HI); [exact Hk|]. rewrite Ha. intros [].
    + rewrite (Hout k Hk). apply (inv_out _ _ _ _ HI). exact Hk.
  - rewrite Herr. apply eq_true_iff_eq. rewrite (inv_failed _ _ _ _ HI), existsb_exists, Ha. split.
    + intros (k & H1 & _ & H3). exists k. auto.
    + intros (k & H1 & H3). exists k. split; [exact H1|]. split; [intros [] | exact H3].
Qed.

(* ------------------------------------------------------------------------------------------------------------ *)
(* 6. a finishing schedule exists: worker 0 does every job, then every worker sees the empty queue               *)

Definition job_sched (e : env) (k : nat) : list nat :=
  if fail_get e k then [0; 0; 0]
  else match lookup k (src e) with None => [0; 0; 0] | Some _ => [0; 0; 0; 0] end.

Lemma step0_idle e k q ws t f :
  pool_step date e (mk_pool (k :: q) (WIdle :: ws) t f) 0 = mk_pool q (WNamed k :: ws) t f.
Proof. reflexivity. Qed.
Lemma step0_named e k q ws t f :
  pool_step date e (mk_pool q (WNamed k :: ws) t f) 0 = mk_pool q (WStart k (start_of date e t k) :: ws) t f.
Proof. reflexivity. Qed.
Lemma step0_start e k s q ws t f :
  pool_step date e (mk_pool q (WStart k s :: ws) t f) 0 =
  match get_since date e k s with
  | None => mk_pool q (WIdle :: ws) t true
  | Some l => mk_pool q (WSnaps k l :: ws) t f
  end.
Proof. reflexivity. Qed.
Lemma step0_snaps e k l q ws t f :
  pool_step date e (mk_pool q (WSnaps k l :: ws) t f) 0 =
  match append_to date e t k l with
  | None => mk_pool q (WIdle :: ws) t true
  | Some t' => mk_pool q (WIdle :: ws) t' f
  end.
Proof. reflexivity. Qed.

Lemma run_job0 e k q ws t f : exists t' f',
  run_schedule date e (mk_pool (k :: q) (WIdle :: ws) t f) (job_sched e k) = mk_pool q (WIdle :: ws) t' f'.
Proof.
  unfold job_sched, run_schedule.
  destruct (fail_get e k) eqn:Hg; [|destruct (lookup k (src e)) as [l|] eqn:Hs];
    cbn [fold_left]; rewrite step0_idle, step0_named, step0_start; unfold get_since; rewrite Hg, ?Hs;
    try (eexists; eexists; reflexivity).
  rewrite step0_snaps. destruct (append_to date e t k _); eexists; eexists; reflexivity.
Qed.

Lemma run_schedule_app e (p : pool) s1 s2 :
  run_schedule date e p (s1 ++ s2) = run_schedule date e (run_schedule date e p s1) s2.
Proof. apply fold_left_app. Qed.

Lemma run_all_jobs0 e ws : forall q t f, exists t' f',
  run_schedule date e (mk_pool q (WIdle :: ws) t f) (flat_map (job_sched e) q) = mk_pool [] (WIdle :: ws) t' f'.
Proof.
  induction q as [|k q IH]; intros t f; [exists t, f; reflexivity|].
  cbn [flat_map]. rewrite run_schedule_app.
  destruct (run_job0 e k q ws t f) as (t1 & f1 & ->). apply IH.
Qed.

Lemma set_nth_app {A} (a : list A) i x y b : length a = i -> set_nth i x (a ++ y :: b) = a ++ x :: b.
Proof. intros <-. induction a as [|z a IH]; cbn; [reflexivity | rewrite IH; reflexivity]. Qed.

Lemma run_all_done e t f : forall m i,
  run_schedule date e (mk_pool [] (repeat WDone i ++ repeat WIdle m) t f) (seq i m) =
  mk_pool [] (repeat WDone (i + m)) t f.
Proof.
  induction m as [|m IH]; intros i.
  - cbn. rewrite app_nil_r, Nat.add_0_r. reflexivity.
  - assert (Hlen : length (repeat (@WDone S) i) = i) by apply repeat_length.
    assert (Hn : nth_error (repeat WDone i ++ WIdle :: repeat (@WIdle S) m) i = Some WIdle).
    { rewrite nth_error_app2 by (rewrite Hlen; apply Nat.le_refl). rewrite Hlen, Nat.sub_diag. reflexivity. }
    assert (Hstep : pool_step date e (mk_pool [] (repeat WDone i ++ repeat WIdle (Datatypes.S m)) t f) i =
                    mk_pool [] (repeat WDone (Datatypes.S i) ++ repeat WIdle m) t f).
    { unfold pool_step. cbn [workers queue target failed repeat]. rewrite Hn.
      rewrite (set_nth_app _ _ _ _ _ Hlen). rewrite repeat_cons, <- app_assoc. reflexivity. }
    change (seq i (Datatypes.S m)) with ([i] ++ seq (Datatypes.S i) m).
    rewrite run_schedule_app. change (run_schedule date e ?p [i]) with (pool_step date e p i).
    rewrite Hstep, IH. f_equal. f_equal. lia.
Qed.

Theorem schedule_exists (e : env) (tgt : spec) (ks : list nat) (n : nat) :
  n >= 1 -> exists sched, finished (run_schedule date e (init_pool n ks tgt) sched) = true.
Proof.
  intros Hn. destruct n as [|n]; [lia|].
  exists (flat_map (job_sched e) ks ++ seq 0 (Datatypes.S n)).
  rewrite run_schedule_app.
  unfold init_pool. cbn [repeat].
  destruct (run_all_jobs0 e (repeat WIdle n) ks tgt false) as (t' & f' & ->).
  change (WIdle :: repeat WIdle n) with (repeat (@WDone S) 0 ++ repeat WIdle (Datatypes.S n)).
  rewrite run_all_done. unfold finished. cbn [queue workers].
  clear. induction (0 + Datatypes.S n) as [|m IH]; [reflexivity | exact IH].
Qed.

End SyncProofs.

(* ------------------------------------------------------------------------------------------------------------ *)
(* 7-8. concrete runs: snapshots are whole numbers carrying their own date                                       *)

Section Examples.
Open Scope Z_scope.
Let idz (x : Z) : Z := x.
Let never (_ : nat) : bool := false.

(* 7. the same name twice in the list: both workers read the last date before either appends, and the snapshots
      are stored twice; the sequential run stores them once.  The duplicate-free hypothesis of theorem 5 is needed. *)
Let e_dup : env (S:=Z) := mk_env [(0%nat, [1; 2; 3])] 0 never never.

Example duplicates_refuted :
  let p := run_schedule idz e_dup (init_pool 2 [0%nat; 0%nat] []) [0; 1; 0; 1; 0; 1; 0; 1; 0; 1]%nat in
  finished p = true /\
  lookup 0%nat (target p) = Some [1; 2; 3; 1; 2; 3] /\
  lookup 0%nat (fst (run_jobs idz e_dup [] [0%nat; 0%nat])) = Some [1; 2; 3] /\
  ~ same_contents (target p) (fst (run_jobs idz e_dup [] [0%nat; 0%nat])).
Proof.
  cbv zeta. split; [vm_compute; reflexivity|]. split; [vm_compute; reflexivity|]. split; [vm_compute; reflexivity|].
  intros H. specialize (H 0%nat). vm_compute in H. discriminate.
Qed.

(* 8. two assets and one unknown name (its source read fails); asset 0 is partly there, asset 1 is new and the
      default start date cuts its first snapshot; appends to name 2 would fail too *)
Let e_two : env (S:=Z) := mk_env [(0%nat, [1; 2; 3; 4]); (1%nat, [5; 6; 7])] 6 never (fun k => Nat.eqb k 2).
Let t_two : spec (S:=Z) := [(0%nat, [1; 2])].
Let ks_two : list nat := [0; 2; 1]%nat.

Example two_assets_sequential :
  run_jobs idz e_two t_two ks_two = ([(0%nat, [1; 2; 3; 4]); (1%nat, [6; 7])], true).
Proof. vm_compute. reflexivity. Qed.

Example two_assets_pool :
  let p := run_schedule idz e_two (init_pool 2 ks_two t_two) (round_robin 2 40) in
  finished p = true /\
  target p = fst (run_jobs idz e_two t_two ks_two) /\
  failed p = snd (run_jobs idz e_two t_two ks_two).
Proof. vm_compute. auto. Qed.

(* the hypotheses of theorems 4 and 5 hold of this example, so the theorems say something about it *)
Example two_assets_hypotheses :
  NoDup ks_two /\
  (forall k l, In k ks_two -> lookup k (src e_two) = Some l -> sorted_by_date idz l) /\
  finished (run_schedule idz e_two (init_pool 2 ks_two t_two) (round_robin 2 40)) = true.
Proof.
  split; [|split].
  - repeat constructor; cbn; intuition discriminate.
  - intros k l Hk Hl. unfold sorted_by_date, idz.
    destruct Hk as [<-|[<-|[<-|[]]]]; vm_compute in Hl; try discriminate; injection Hl as <-;
      repeat constructor; lia.
  - vm_compute. reflexivity.
Qed.

Example two_assets_second_run :
  run_jobs idz e_two (fst (run_jobs idz e_two t_two ks_two)) ks_two = run_jobs idz e_two t_two ks_two.
Proof. vm_compute. reflexivity. Qed.

(* a schedule in which the worker holding asset 1 appends first: the names are created in a different order than in
   the sequential run, which is why theorem 5 compares contents name by name *)
Let e_ord : env (S:=Z) := mk_env [(0%nat, [1; 2]); (1%nat, [3])] 0 never never.
Example order_may_differ :
  let p := run_schedule idz e_ord (init_pool 2 [0; 1]%nat []) [0; 1; 1; 1; 1; 0; 0; 0; 0; 1]%nat in
  finished p = true /\
  target p = [(1%nat, [3]); (0%nat, [1; 2])] /\
  fst (run_jobs idz e_ord [] [0; 1]%nat) = [(0%nat, [1; 2]); (1%nat, [3])].
Proof. vm_compute. auto. Qed.

(* theorem 4 needs the source in date order: with [3; 1] in the source the first run stores [3; 1], the last date is
   then 1, and the second run copies 3 again *)
Let e_uns : env (S:=Z) := mk_env [(0%nat, [3; 1])] 0 never never.
Example unsorted_source_refuted :
  let t' := fst (run_jobs idz e_uns [] [0%nat]) in
  lookup 0%nat t' = Some [3; 1] /\
  lookup 0%nat (fst (run_jobs idz e_uns t' [0%nat])) = Some [3; 1; 3] /\
  ~ same_contents (fst (run_jobs idz e_uns t' [0%nat])) t'.
Proof.
  cbv zeta. split; [vm_compute; reflexivity|]. split; [vm_compute; reflexivity|].
  intros H. specialize (H 0%nat). vm_compute in H. discriminate.
Qed.
End Examples.

Print Assumptions job_spec.
Print Assumptions run_jobs_spec.
Print Assumptions copied_is_exactly_the_missing.
Print Assumptions sync_idempotent.
Print Assumptions no_duplicates_added.
Print Assumptions schedule_independent.
Print Assumptions schedule_exists.
Print Assumptions duplicates_refuted.
Print Assumptions two_assets_sequential.
Print Assumptions two_assets_pool.
Print Assumptions two_assets_hypotheses.
Print Assumptions two_assets_second_run.
Print Assumptions order_may_differ.
Print Assumptions unsorted_source_refuted.
