(* C12: asset.Sync.Run as a function on the repository specification of Repo/Repo.v, and as a pool of workers that take
   asset names from a shared queue and make their three repository calls (LastDate on the target, GetSince on the source,
   Append on the target) one at a time, in any interleaving.
   Dates are whole days (what the repositories store: "2006-01-02"); "one day after the last date" is [d + 1].
   Names are natural numbers, as in Repo.v.  This file holds definitions only (it must keep running when a proof breaks). *)
From Coq Require Import List ZArith Bool Lia.
Import ListNotations.
From Verif Require Import Repo.Repo.

Section Sync.
Context {S : Type} (date : S -> Z).

(* what one run is given: the source contents, the default start date, and which assets fail where
   (fail_get: the source read fails; fail_app: the target append fails) *)
Record env := mk_env { src : spec (S:=S); dflt : Z; fail_get : nat -> bool; fail_app : nat -> bool }.

(* target.LastDate(name) + 1 day, else the default start date *)
Definition start_of (e : env) (tgt : spec (S:=S)) (k : nat) : Z :=
  match lookup k tgt with
  | Some l => match last_date date l with RDate d => (d + 1)%Z | _ => dflt e end
  | None => dflt e
  end.

(* source.GetSince(name, start): an unknown asset is an error, as is an injected failure *)
Definition get_since (e : env) (k : nat) (start : Z) : option (list S) :=
  if fail_get e k then None
  else match lookup k (src e) with Some l => Some (since date start l) | None => None end.

(* target.Append(name, snapshots) *)
Definition append_to (e : env) (tgt : spec (S:=S)) (k : nat) (l : list S) : option (spec (S:=S)) :=
  if fail_app e k then None else Some (fst (spec_step date tgt (OAppend k l))).

(* ---- one worker: jobs one after the other ---- *)
Definition job (e : env) (tgt : spec (S:=S)) (k : nat) : spec (S:=S) * bool :=
  match get_since e k (start_of e tgt k) with
  | None => (tgt, true)
  | Some l => match append_to e tgt k l with None => (tgt, true) | Some tgt' => (tgt', false) end
  end.

Fixpoint run_jobs (e : env) (tgt : spec (S:=S)) (ks : list nat) : spec (S:=S) * bool :=
  match ks with
  | [] => (tgt, false)
  | k :: ks' => let (t1, e1) := job e tgt k in let (t2, e2) := run_jobs e t1 ks' in (t2, e1 || e2)
  end.

(* the asset list: explicit, or every asset of the target when none is given *)
Definition assets_of (explicit : list nat) (tgt : spec (S:=S)) : list nat :=
  match explicit with [] => sort_names (keys tgt) | _ => explicit end.

Definition sync (e : env) (tgt : spec (S:=S)) (explicit : list nat) : spec (S:=S) * bool :=
  run_jobs e tgt (assets_of explicit tgt).

(* ---- a pool of workers ---- *)
Inductive wstate :=
| WIdle                                     (* about to take a name from the queue *)
| WNamed (k : nat)                          (* took a name; next: target.LastDate *)
| WStart (k : nat) (start : Z)              (* next: source.GetSince *)
| WSnaps (k : nat) (l : list S)             (* next: target.Append *)
| WDone.                                    (* saw the queue closed and empty *)

Record pool := mk_pool { queue : list nat; workers : list wstate; target : spec (S:=S); failed : bool }.

Definition init_pool (n : nat) (ks : list nat) (tgt : spec (S:=S)) : pool :=
  mk_pool ks (repeat WIdle n) tgt false.

Fixpoint set_nth {A} (i : nat) (x : A) (l : list A) : list A :=
  match l, i with
  | [], _ => []
  | _ :: l', O => x :: l'
  | y :: l', Datatypes.S i' => y :: set_nth i' x l'
  end.

(* worker [w] makes its next move; a finished or absent worker does nothing *)
Definition pool_step (e : env) (p : pool) (w : nat) : pool :=
  match nth_error (workers p) w with
  | None => p
  | Some st =>
      let setw st' := set_nth w st' (workers p) in
      match st with
      | WIdle => match queue p with
                 | [] => mk_pool [] (setw WDone) (target p) (failed p)
                 | k :: q => mk_pool q (setw (WNamed k)) (target p) (failed p)
                 end
      | WNamed k => mk_pool (queue p) (setw (WStart k (start_of e (target p) k))) (target p) (failed p)
      | WStart k start => match get_since e k start with
                          | None => mk_pool (queue p) (setw WIdle) (target p) true
                          | Some l => mk_pool (queue p) (setw (WSnaps k l)) (target p) (failed p)
                          end
      | WSnaps k l => match append_to e (target p) k l with
                      | None => mk_pool (queue p) (setw WIdle) (target p) true
                      | Some t' => mk_pool (queue p) (setw WIdle) t' (failed p)
                      end
      | WDone => p
      end
  end.

Definition run_schedule (e : env) (p : pool) (sched : list nat) : pool := fold_left (pool_step e) sched p.

Definition finished (p : pool) : bool :=
  match queue p with [] => forallb (fun st => match st with WDone => true | _ => false end) (workers p) | _ => false end.

(* two targets hold the same snapshots under every name (the order in which names were first created may differ) *)
Definition same_contents (a b : spec (S:=S)) : Prop := forall k, lookup k a = lookup k b.

(* a fair round-robin schedule long enough to finish: used to run the pool on concrete cases *)
Fixpoint round_robin (n rounds : nat) : list nat :=
  match rounds with O => [] | Datatypes.S r => seq 0 n ++ round_robin n r end.

End Sync.
