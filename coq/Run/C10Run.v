(* C10 correspondence: operation histories run on the real repositories (in-memory, file-system in a temporary directory with
   optional pre-existing zero-byte / header-only files, SQL over a conforming in-memory driver) against the specification.
   bit 1: an observation differs from the map specification (which is also the model of each implementation through abs_fs). *)
From Coq Require Import Floats ZArith Bool List.
Import ListNotations.
From Verif Require Import Base.FloatUtil Repo.Repo.

Definition snapR := (Z * list float)%type.            (* day number, [open; high; low; close; volume] *)
Definition dateR (s : snapR) : Z := fst s.
Definition snap_eqb (a b : snapR) : bool := Z.eqb (fst a) (fst b) && list_eqb fbits_eq (snd a) (snd b).

Definition obs_eqb (a b : obs (S:=snapR)) : bool :=
  match a, b with
  | RUnit, RUnit => true
  | RVals x, RVals y => list_eqb snap_eqb x y
  | RDate x, RDate y => Z.eqb x y
  | RNames x, RNames y => list_eqb Nat.eqb x y
  | RErr, RErr => true
  | _, _ => false
  end.

Inductive impl := IMemory | IFileSystem | ISql.
Inductive case := CRepo (i : impl) (initial : fs (S:=snapR)) (h : list (op (S:=snapR))) (observed : list (obs (S:=snapR))).

Definition check (c : case) : nat :=
  match c with
  | CRepo i initial h observed =>
      let expected := match i with
                      | IFileSystem => run (fs_step dateR) initial h
                      | ISql => run (rows_step dateR) [] h
                      | IMemory => run (spec_step dateR) (abs_fs initial) h
                      end in
      (* the SQL table cannot hold an asset without snapshots: appending nothing leaves no trace there (rows_step); such a name is
         neither "holding snapshots" nor "never appended", so the property leaves its treatment open *)
      let spec := match i with ISql => run (rows_step dateR) [] h | _ => run (spec_step dateR) (abs_fs initial) h end in
      (if list_eqb obs_eqb observed expected then 0 else 1) + (if list_eqb obs_eqb observed spec then 0 else 2)
  end.

Definition mismatches (cs : list case) : list (nat * nat) := bad_indices check 0 cs.
