(* C19 correspondence: the all-string CSV reader on arbitrary bytes, against the model of the glue (Codec/Glue.v) fed with the events
   encoding/csv produces on the same bytes.  bit 0: delivered rows or the way the stream ended differ from the model (with the bounds
   check); bit 1: the process died (a panic in the reader goroutine) or rows are not the well-formed prefix. *)
From Coq Require Import ZArith Bool List String.
Import ListNotations.
From Verif Require Import Base.FloatUtil Codec.Csv Codec.Glue.

Inductive case := CGlue (has_header : bool) (evs : list ev) (rows : list (list string)) (e : ending).

Definition ending_eqb (a b : ending) : bool := match a, b with Closed, Closed => true | Panicked, Panicked => true | _, _ => false end.
Definition hdrs : list string := ["A"; "B"; "C"]%string.

Definition check (c : case) : nat :=
  match c with
  | CGlue has_header evs rows e =>
      let m := csv_glue true has_header hdrs evs in
      let same := list_eqb (list_eqb String.eqb) rows (fst m) && ending_eqb e (snd m) in
      (if same then 0 else 1) + (match e with Panicked => 2 | Closed => 0 end)
  end.

Definition mismatches (cs : list case) : list (nat * nat) := bad_indices check 0 cs.
