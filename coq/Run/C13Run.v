(* C13 correspondence: backtest.Backtest.Run executed on a real repository with real strategies, a recording report in front of
   the bundled DataReport / HTMLReport, 1..16 workers, against the model Backtest/Backtest.v and the property.
   bit 0 (1): model: with one worker the recorded report calls are exactly the model's sequential trace; with any number the
              model's own pool run (round-robin) must satisfy the protocol it is proved to satisfy (sanity of the executable model);
   bit 1 (2): protocol: Begin first, End last, per requested readable asset AssetBegin, one Write per strategy in order, AssetEnd;
              nothing for unreadable assets; the data report holds, per asset, one result per strategy in order;
   bit 2 (4): ranking: a per-asset or overall ranking as presented is not in non-increasing outcome order.
   Result values (outcome, last action, transactions = direct evaluation of the strategy on the window) are compared by the
   harness, float for float, on the implementation side. *)
From Coq Require Import Floats ZArith Bool List.
Import ListNotations.
From Verif Require Import Base.FloatUtil Backtest.Backtest.

Inductive case :=
  CBack (names readable : list nat) (nstrat nworkers : nat) (trace : list call)
        (data_results : option (list (nat * list nat)))   (* DataReport.Results: asset -> strategy indices in stored order; None: HTML report *)
        (rankings : list (list float)).            (* every ranking presented (asset pages, index page), outcomes in order *)

Definition mem (k : nat) (l : list nat) : bool := existsb (Nat.eqb k) l.

Definition fgeb (a b : float) : bool := PrimFloat.leb b a.

Definition data_ok (names readable : list nat) (nstrat : nat) (d : list (nat * list nat)) : bool :=
  forallb (fun k => match get k d with
                    | Some l => mem k readable && list_eqb Nat.eqb l (seq 0 nstrat)
                    | None => negb (mem k readable)
                    end) names
  && forallb (fun kv => mem (fst kv) names) d.

Definition check (c : case) : nat :=
  match c with
  | CBack names readable nstrat n trace d rankings =>
      let window := fun k => if mem k readable then Some (@nil unit) else None in
      let eval := fun (_ : nat) (_ : list unit) => tt in
      let p := run_schedule window eval nstrat (init_pool n names) (round_robin_sched n (List.length names * (nstrat + 4) + 2)) in
      let model_ok := finished p && protocol_ok nstrat names (fun k => mem k readable) (map erase (run_trace p))
                      && (if Nat.eqb n 1 then calls_eqb trace (map erase (sequential_trace window eval nstrat names)) else true) in
      let spec_ok := protocol_ok nstrat names (fun k => mem k readable) trace && match d with Some d' => data_ok names readable nstrat d' | None => true end in
      let rank_ok := forallb (non_increasing float fgeb) rankings in
      (if model_ok then 0 else 1) + (if spec_ok then 0 else 2) + (if rank_ok then 0 else 4)
  end.

Definition mismatches (cs : list case) : list (nat * nat) := bad_indices check 0 cs.
