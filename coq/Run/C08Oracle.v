(* C08 oracle, independent of the regenerated model (so that it still runs when the model cannot be regenerated):
   the properties of C08 in executable form, evaluated on the streams the implementation delivered.
   bit 1: one entry per pair, never below -1, equal to the abstract portfolio, 0 until the first Buy, unchanged by
          normalisation, normalised stream alternates from Buy, normalize (denormalize n) = n, transaction counts. *)
From Coq Require Import Floats ZArith Bool List.
Import ListNotations.
From Verif Require Import Base.FloatUtil.

Inductive case :=
| COut (vals : list float) (acts : list Z)
       (out : list float)            (* Outcome(vals, acts) *)
       (norm : list Z)               (* NormalizeActions(acts) *)
       (denorm : list Z)             (* DenormalizeActions(acts) *)
       (norm_denorm_norm : list Z)   (* NormalizeActions(DenormalizeActions(NormalizeActions(acts))) *)
       (out_norm : list float)       (* Outcome(vals, NormalizeActions(acts)) *)
       (count : list Z).             (* CountTransactions(acts) *)

(* the abstract portfolio at binary64 *)
Inductive pst := PCash (c : float) | PInv (u : float).
Fixpoint portfolio_f (s : pst) (vals : list float) (acts : list Z) : list float :=
  match vals, acts with
  | v :: vals', a :: acts' =>
      let s' := match s with
                | PCash c => if Z.eqb a 1 then PInv (c / v) else s
                | PInv u => if Z.eqb a (-1) then PCash (u * v) else s
                end in
      (match s' with PCash c => c - 1 | PInv u => u * v - 1 end)%float :: portfolio_f s' vals' acts'
  | _, _ => []
  end.

Fixpoint alternates_b (expect : Z) (l : list Z) : bool :=
  match l with
  | [] => true
  | a :: l' => if Z.eqb a 0 then alternates_b expect l' else Z.eqb a expect && alternates_b (- expect) l'
  end.

Fixpoint zero_until_buy (acts : list Z) (out : list float) : bool :=
  match acts, out with
  | a :: acts', o :: out' => if Z.eqb a 1 then true else PrimFloat.eqb o 0 && zero_until_buy acts' out'
  | _, _ => true
  end.

Fixpoint counts_ok (t : Z) (acts count : list Z) : bool :=
  match acts, count with
  | [], [] => true
  | a :: acts', c :: count' => let t' := if Z.eqb a 0 then t else (t + 1)%Z in Z.eqb c t' && counts_ok t' acts' count'
  | _, _ => false
  end.

Definition tolr : float := 0x1p-40%float.
Definition lZ := list_eqb Z.eqb.

Definition spec_ok (c : case) : bool :=
  match c with
  | COut vals acts out norm denorm ndn out_norm count =>
        Nat.eqb (length out) (Nat.min (length vals) (length acts)) &&
        forallb (fun o => PrimFloat.leb (-1) o) out &&
        list_eqb (fclose tolr tolr) out (portfolio_f (PCash 1) vals acts) &&
        zero_until_buy acts out &&
        list_eqb fbits_eq out (firstn (length out) out_norm) && Nat.eqb (length out_norm) (length out) &&
        alternates_b 1 norm && Nat.eqb (length norm) (length acts) &&
        lZ ndn norm &&
        counts_ok 0 acts count
  end.

Definition check (c : case) : nat := if spec_ok c then 0 else 2.
Definition mismatches (cs : list case) : list (nat * nat) := bad_indices check 0 cs.
