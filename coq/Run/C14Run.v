(* C14 correspondence and oracle: the date axis and every column of a strategy report.
   bit 0: a column (or the date axis) differs from the model's;
   bit 1: admissible configuration, n >= warm-up, and some column does not have exactly one value per date row;
   bit 3 (8): a column is equal to the model's within the tolerance only (note);
   bit 2: some channel never closed;
   bit 4 (16): the dates are not the last rows of the snapshot dates, or the "Close" column is not those rows' closing prices, or the
               annotation column is not the annotation of the normalised actions of those rows, or the "Outcome" column is not 100 x outcome;
   bit 5 (32): signature of the recorded Alligator/SMMA defect: indicator and annotation columns carry exactly one surplus value. *)
From Coq Require Import Floats ZArith Bool List String.
Import ListNotations.
From Verif Require Import Base.FloatUtil Base.Num Base.Stream Base.GenPrelude Gen.All Run.FlowRun Run.ValRun.

Definition string_eqb (a b : string) : bool := if string_dec a b then true else false.

Definition col_len (c : ocol) : nat := match c with ONum _ v => List.length v | OAnn v => List.length v end.

Definition col_cmp (bars : list snap) (m : column snap float) (o : ocol) : nat :=
  match m, o with
  | ColNum l e, ONum l' v =>
      if negb (string_eqb l l' || string_eqb l ""%string) then 1   (* labels built with Sprintf are "" in the model *)
      else let mv := sem e [bars] in
           if vals_exact mv v then 0 else if vals_close mv v then 8 else 1
  | ColAnn _ e, OAnn v => if list_eqb string_eqb (sem e [bars]) v then 0 else 1
  | _, _ => 1
  end.

Fixpoint cols_cmp (bars : list snap) (ms : list (column snap float)) (os : list ocol) : nat :=
  match ms, os with
  | [], [] => 0
  | m :: ms', o :: os' => Nat.lor (col_cmp bars m o) (cols_cmp bars ms' os')
  | _, _ => 1
  end.

Definition normalize_l (l : list Z) : list Z :=
  s_mapst (fun last a => if zneb a 0 && zneb a last then (a, a) else (last, 0%Z)) (-1)%Z l.
Definition annot (a : Z) : string := if Z.eqb a (-1) then "S"%string else if Z.eqb a 1 then "B"%string else ""%string.

(* content oracle on the observed columns (rows = the last [length dates] snapshots) *)
Definition content_ok (bars : list snap) (eacts : expr snap Z) (dates : list Z) (cols : list ocol) : bool :=
  let n := List.length bars in
  let k := n - List.length dates in
  let acts := sem eacts [bars] in
  let outcomes := sem (helper_MultiplyBy (strategy_Outcome (asset_SnapshotsAsClosings (EIn 0)) eacts) (nofZ 100%Z)) [bars] in
  let closes := map (@asset_Snapshot_Close float) bars in
  list_eqb Z.eqb dates (skipn k (map (@asset_Snapshot_Date float) bars)) &&
  forallb (fun c =>
    match c with
    | ONum l v =>
        if string_eqb l "Close"%string then list_eqb fbits_eq v (skipn k closes)
        else if string_eqb l "Outcome"%string then list_eqb fbits_eq v (skipn k outcomes)
        else true
    | OAnn v => list_eqb string_eqb v (skipn k (map annot (normalize_l acts)))
    end) cols.

Definition check (c : rcase) : nat :=
  match c with
  | CRep r acts w adm bars dates cols hung =>
      if hung then (if adm then 4 else 0)
      else
        let n := List.length bars in
        let b0 := Nat.lor (if list_eqb Z.eqb (sem (rp_dates r) [bars]) dates then 0 else 1)
                          (cols_cmp bars (rp_cols r) cols) in
        let rows_ok := forallb (fun c => Nat.eqb (col_len c) (List.length dates)) cols in
        let in_scope := adm && Nat.leb (Z.to_nat w) n in
        let sig := forallb (fun c => match c with
                                     | ONum l v => if string_eqb l "Close"%string || string_eqb l "Outcome"%string
                                                   then Nat.eqb (List.length v) (List.length dates)
                                                   else Nat.eqb (List.length v) (S (List.length dates))
                                     | OAnn v => Nat.eqb (List.length v) (S (List.length dates))
                                     end) cols in
        (if sig then 32 else 0) +
        b0 + (if negb in_scope || rows_ok then 0 else 2)
           + (if negb in_scope || negb rows_ok || content_ok bars acts dates cols then 0 else 16)
  end.

Definition mismatches (cs : list rcase) : list (nat * nat) := bad_indices check 0 cs.
