(* C11 correspondence: (a) header-name column mapping of the CSV reader on an all-string row struct, against the record-level model
   (Codec/Csv.v, identity cell codec); (b) sequences of WriteToFile / AppendToFile on one file, against the byte-level file model.
   bit 0: observation differs from the model; bit 1: the property's own statement fails (a write does not replace the content). *)
From Coq Require Import ZArith Bool List String Ascii.
Import ListNotations.
From Verif Require Import Base.FloatUtil Codec.Csv.
Local Open Scope string_scope.

Definition cell_enc (i : nat) (v : string) : string := v.
Definition cell_dec (i : nat) (s : string) : option string := Some s.

Fixpoint join (sep : string) (l : list string) : string :=
  match l with [] => "" | [x] => x | x :: l' => x ++ sep ++ join sep l' end.
Definition nl : string := String (ascii_of_nat 10) "".
Definition render (recs : list (list string)) : string := concat "" (map (fun r => join "," r ++ nl) recs).

Inductive fop := FWrite (rows : list (list string)) | FAppend (rows : list (list string)).

Definition bytes (s : string) : list ascii := list_ascii_of_string s.

Definition apply_op (headers : list string) (old : list ascii) (o : fop) : list ascii :=
  match o with
  | FWrite rows => write_file old (bytes (render (headers :: rows)))
  | FAppend rows => append_file old (bytes (render rows))
  end.

Inductive case :=
| CCsvRead (headers : list string) (file : list (list string)) (observed : list (list string))
| CFileOps (headers : list string) (ops : list fop) (final : string).

Definition rows_eqb := list_eqb (list_eqb String.eqb).

Definition check (c : case) : nat :=
  match c with
  | CCsvRead headers file observed =>
      if rows_eqb observed (read_records cell_dec headers "" file) then 0 else 3
  | CFileOps headers ops final =>
      let model := fold_left (apply_op headers) ops [] in
      if list_eqb Ascii.eqb (bytes final) model then 0 else 3
  end.

Definition mismatches (cs : list case) : list (nat * nat) := bad_indices check 0 cs.
