(* C07 oracle, independent of the regenerated model: the documented functions in executable form, evaluated on the
   action streams the implementation delivered when the wrapped strategies are stubs replaying chosen words.
   bit 1: the observed actions are not the documented function of the words and the closing prices. *)
From Coq Require Import Floats ZArith Bool List.
Import ListNotations.
From Verif Require Import Base.FloatUtil.

Inductive comb :=
| KAnd | KOr | KMajority | KSplit | KInverse | KNoLoss | KStopLoss (pct : float).

Inductive case :=
| CComb (k : comb) (words : list (list Z)) (closes : list float) (obs : list Z).

Definition denorm (l : list Z) : list Z :=
  (fix go (last : Z) (l : list Z) : list Z :=
     match l with
     | [] => []
     | a :: l' => let last' := if negb (Z.eqb a 0) && negb (Z.eqb a last) then a else last in last' :: go last' l'
     end) 0%Z l.

Fixpoint min_len (ls : list (list Z)) : nat :=
  match ls with [] => 0 | [l] => length l | l :: ls' => Nat.min (length l) (min_len ls') end.

Definition col (j : nat) (ls : list (list Z)) : list Z := map (fun l => nth j l 0%Z) ls.
Definition cnt (x : Z) (c : list Z) : Z := Z.of_nat (length (filter (Z.eqb x) c)).

Definition vote (k : comb) (c : list Z) : Z :=
  let n := Z.of_nat (length c) in
  let b := cnt 1 c in let s := cnt (-1) c in let h := (n - b - s)%Z in
  match k with
  | KAnd => if Z.eqb s n then (-1)%Z else if Z.eqb b n then 1%Z else 0%Z
  | KOr => if Z.gtb s 0 && Z.eqb b 0 then (-1)%Z else if Z.gtb b 0 && Z.eqb s 0 then 1%Z else 0%Z
  | _ => if Z.gtb s b && Z.gtb s h then (-1)%Z else if Z.gtb b s && Z.gtb b h then 1%Z else 0%Z
  end.

Fixpoint zip2 (f : Z -> Z -> Z) (a b : list Z) : list Z :=
  match a, b with x :: a', y :: b' => f x y :: zip2 f a' b' | _, _ => [] end.

Fixpoint noloss_f (bought : option float) (acts : list Z) (closes : list float) : list Z :=
  match acts, closes with
  | a :: acts', c :: closes' =>
      match bought with
      | None => if Z.eqb a 1 then 1%Z :: noloss_f (Some c) acts' closes' else 0%Z :: noloss_f None acts' closes'
      | Some b => if Z.eqb a (-1) && PrimFloat.ltb b c then (-1)%Z :: noloss_f None acts' closes'
                  else 0%Z :: noloss_f (Some b) acts' closes'
      end
  | _, _ => []
  end.

Fixpoint stoploss_f (pct : float) (stop : option float) (acts : list Z) (closes : list float) : list Z :=
  match acts, closes with
  | a :: acts', c :: closes' =>
      match stop with
      | None => if Z.eqb a 1 then 1%Z :: stoploss_f pct (Some (c * (1 - pct))%float) acts' closes'
                else 0%Z :: stoploss_f pct None acts' closes'
      | Some s => if Z.eqb a (-1) || PrimFloat.leb c s then (-1)%Z :: stoploss_f pct None acts' closes'
                  else 0%Z :: stoploss_f pct (Some s) acts' closes'
      end
  | _, _ => []
  end.

Definition documented (k : comb) (words : list (list Z)) (closes : list float) : list Z :=
  match k with
  | KAnd | KOr | KMajority =>
      let ds := map denorm words in
      map (fun j => vote k (col j ds)) (seq 0 (min_len ds))
  | KSplit => match words with
              | [b; s] => zip2 (fun x y => if Z.eqb x 1 && negb (Z.eqb y (-1)) then 1%Z
                                           else if Z.eqb y (-1) && negb (Z.eqb x 1) then (-1)%Z else 0%Z) b s
              | _ => []
              end
  | KInverse => match words with [w] => map (fun a => if Z.eqb a 1 then (-1)%Z else if Z.eqb a (-1) then 1%Z else 0%Z) w | _ => [] end
  | KNoLoss => match words with [w] => noloss_f None w closes | _ => [] end
  | KStopLoss pct => match words with [w] => stoploss_f pct None w closes | _ => [] end
  end.

Definition spec_ok (c : case) : bool :=
  match c with CComb k words closes obs => list_eqb Z.eqb obs (documented k words closes) end.

Definition check (c : case) : nat := if spec_ok c then 0 else 2.
Definition mismatches (cs : list case) : list (nat * nat) := bad_indices check 0 cs.
