(* C16 correspondence: every stream helper of helper/*.go against its slice model (coq/Base/Stream.v and the regenerated
   arithmetic wrappers), on every input length 0..12, parameters 0..6 and unequal input lengths.
   bit 0: an output stream differs from the slice model (bit-for-bit on binary64 elements);
   bit 1: an input was not consumed to the end although the model says it is (or vice versa). *)
From Coq Require Import Floats ZArith Bool List.
Import ListNotations.
From Verif Require Import Base.FloatUtil Base.Num Base.Stream Base.GenPrelude Gen.All.

Inductive helper :=
| HMap | HApply | HFilter | HSkip | HHead | HFirst | HLast | HShift | HBuffered | HPipe | HWaitable | HDuplicate | HCount | HSince
| HChange | HChangeRatio | HChangePercent | HOperate | HOperate3 | HEcho | HSeq | HMapWithPrevious
| HAbs | HAdd | HSubtract | HMultiply | HDivide | HMultiplyBy | HDivideBy | HIncrementBy | HDecrementBy | HPow | HSqrt | HSign
| HKeepPositives | HKeepNegatives | HRoundDigits | HSyncPeriod.

Inductive case :=
| CH (h : helper) (ps : list Z) (fs : list float) (inputs : list (list float)) (outs : list (list float)) (consumed : list bool).

Definition E0 : expr float float := EIn 0.
Definition E1 : expr float float := EIn 1.
Definition E2 : expr float float := EIn 2.
Definition p (ps : list Z) (i : nat) : Z := nth i ps 0%Z.
Definition f (fs : list float) (i : nat) : float := nth i fs 0%float.

(* the test closures the harness passes to the generic helpers *)
Definition t_map (x : float) : float := (x * 2 + 1)%float.
Definition t_pred (x : float) : bool := PrimFloat.ltb 0 x.
Definition t_op2 (a b : float) : float := (a * 2 - b)%float.
Definition t_op3 (a b c : float) : float := (a + b * c)%float.
Definition t_prev (prev x : float) : float := (prev + x)%float.

Definition model (h : helper) (ps : list Z) (fs : list float) (ins : list (list float)) : list (list float) :=
  let i0 := nth 0 ins [] in let i1 := nth 1 ins [] in let i2 := nth 2 ins [] in
  let one (e : expr float float) := [sem e ins] in
  match h with
  | HMap | HApply => [map t_map i0]
  | HFilter => [s_filter t_pred i0]
  | HSkip => [s_skip (p ps 0) i0]
  | HHead => [s_head (p ps 0) i0]
  | HFirst => [s_first (p ps 0) i0]
  | HLast => [s_last (p ps 0) i0]
  | HShift => [s_shift (p ps 0) (f fs 0) i0]
  | HBuffered => [s_buffered (p ps 0) i0]
  | HPipe | HWaitable => [s_pipe i0]
  | HDuplicate => repeat i0 (Z.to_nat (p ps 0))
  | HCount => [s_count (f fs 0) i0]
  | HSince => one (helper_Since E0)
  | HChange => one (helper_Change E0 (p ps 0))
  | HChangeRatio => one (helper_ChangeRatio E0 (p ps 0))
  | HChangePercent => one (helper_ChangePercent E0 (p ps 0))
  | HOperate => [s_op2 t_op2 i0 i1]
  | HOperate3 => [s_op3 t_op3 i0 i1 i2]
  | HEcho => [s_echo 0%float (p ps 0) (p ps 1) i0]
  | HSeq => [s_seq_fuel 1000 (f fs 0) (f fs 1) (f fs 2)]
  | HMapWithPrevious => [s_scan t_prev (f fs 0) i0]
  | HAbs => one (helper_Abs E0)
  | HAdd => one (helper_Add E0 E1)
  | HSubtract => one (helper_Subtract E0 E1)
  | HMultiply => one (helper_Multiply E0 E1)
  | HDivide => one (helper_Divide E0 E1)
  | HMultiplyBy => one (helper_MultiplyBy E0 (f fs 0))
  | HDivideBy => one (helper_DivideBy E0 (f fs 0))
  | HIncrementBy => one (helper_IncrementBy E0 (f fs 0))
  | HDecrementBy => one (helper_DecrementBy E0 (f fs 0))
  | HPow => one (helper_Pow E0 (f fs 0))
  | HSqrt => one (helper_Sqrt E0)
  | HSign => one (helper_Sign E0)
  | HKeepPositives => one (helper_KeepPositives E0)
  | HKeepNegatives => one (helper_KeepNegatives E0)
  | HRoundDigits => one (helper_RoundDigits E0 (p ps 0))
  | HSyncPeriod => one (helper_SyncPeriod (p ps 0) (p ps 1) E0)
  end.

(* which inputs are consumed to the end: all of them, except that Head stops after [count] values *)
Definition consumed_model (h : helper) (ps : list Z) (ins : list (list float)) : list bool :=
  match h with
  | HHead => [Nat.leb (length (nth 0 ins [])) (Z.to_nat (p ps 0))]
  | _ => map (fun _ => true) ins
  end.

(* RoundDigits goes through math.Pow(10, d) and math.Round: tolerance-equal is accepted there *)
Definition outs_eq (h : helper) (a b : list (list float)) : bool :=
  match h with
  | HRoundDigits | HPow => list_eqb (list_eqb (fclose 0x1p-45%float 0x1p-60%float)) a b
  | _ => list_eqb (list_eqb fbits_eq) a b
  end.

Definition check (c : case) : nat :=
  match c with
  | CH h ps fs ins outs consumed =>
      (if outs_eq h outs (model h ps fs ins) then 0 else 1) +
      (if list_eqb Bool.eqb consumed (consumed_model h ps ins) then 0 else 2)
  end.

Definition mismatches (cs : list case) : list (nat * nat) := bad_indices check 0 cs.
