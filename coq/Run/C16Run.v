(* C16 correspondence: every stream helper of helper/*.go against its slice model (coq/Base/Stream.v and the regenerated
   arithmetic wrappers), on every input length 0..12, parameters 0..6 and unequal input lengths.
   bit 0: an output stream differs from the slice model (bit-for-bit on binary64 elements);
   bit 1: an input was not consumed to the end although the model says it is (or vice versa). *)
From Coq Require Import Floats ZArith Bool List.
Import ListNotations.
From Verif Require Import Base.FloatUtil Base.Num Base.Stream Base.HelperModels.

Inductive helper :=
| HMap | HApply | HFilter | HSkip | HHead | HFirst | HLast | HShift | HBuffered | HPipe | HWaitable | HDuplicate | HCount | HSince
| HChange | HChangeRatio | HChangePercent | HOperate | HOperate3 | HEcho | HSeq | HMapWithPrevious
| HAbs | HAdd | HSubtract | HMultiply | HDivide | HMultiplyBy | HDivideBy | HIncrementBy | HDecrementBy | HPow | HSqrt | HSign
| HKeepPositives | HKeepNegatives | HRoundDigits | HSyncPeriod.

Inductive case :=
| CH (h : helper) (ps : list Z) (fs : list float) (inputs : list (list float)) (outs : list (list float)) (consumed : list bool).

(* The slice models used here are hand-written (Stream.v, HelperLaws.v), independent of the regenerated definitions. *)
Definition p (ps : list Z) (i : nat) : Z := nth i ps 0%Z.
Definition f (fs : list float) (i : nat) : float := nth i fs 0%float.

(* the test closures the harness passes to the generic helpers *)
Definition t_map (x : float) : float := (x * 2 + 1)%float.
Definition t_pred (x : float) : bool := PrimFloat.ltb 0 x.
Definition t_op2 (a b : float) : float := (a * 2 - b)%float.
Definition t_op3 (a b c : float) : float := (a + b * c)%float.
Definition t_prev (prev x : float) : float := (prev + x)%float.

Definition model (h : helper) (ps : list Z) (fs : list float) (ins : list (list float)) : list (list float) :=
  let i0 := nth 0 ins [] in let i1 := nth 1 ins [] in let i2 := nth 2 ins [] in
  match h with
  | HMap | HApply => [map t_map i0]
  | HFilter => [s_filter t_pred i0]
  | HSkip => [s_skip (p ps 0) i0]
  | HHead => [s_head (p ps 0) i0]
  | HFirst => [s_first (p ps 0) i0]
  | HLast => [s_last (p ps 0) i0]
  | HShift => [s_shift (p ps 0) (f fs 0) i0]
  | HBuffered => [s_buffered (p ps 0) i0]
  | HPipe | HWaitable => [s_pipe i0]
  | HDuplicate => repeat i0 (Z.to_nat (p ps 0))
  | HCount => [s_count (f fs 0) i0]
  | HSince => [s_since PrimFloat.eqb i0]
  | HChange => [s_change (p ps 0) i0]
  | HChangeRatio => [s_change_ratio (p ps 0) i0]
  | HChangePercent => [s_change_percent (p ps 0) i0]
  | HOperate => [s_op2 t_op2 i0 i1]
  | HOperate3 => [s_op3 t_op3 i0 i1 i2]
  | HEcho => [s_echo 0%float (p ps 0) (p ps 1) i0]
  | HSeq => [s_seq_fuel 1000 (f fs 0) (f fs 1) (f fs 2)]
  | HMapWithPrevious => [s_scan t_prev (f fs 0) i0]
  | HAbs => [map PrimFloat.abs i0]
  | HAdd => [s_op2 PrimFloat.add i0 i1]
  | HSubtract => [s_op2 PrimFloat.sub i0 i1]
  | HMultiply => [s_op2 PrimFloat.mul i0 i1]
  | HDivide => [s_op2 PrimFloat.div i0 i1]
  | HMultiplyBy => [map (fun x => x * f fs 0)%float i0]
  | HDivideBy => [map (fun x => x / f fs 0)%float i0]
  | HIncrementBy => [map (fun x => x + f fs 0)%float i0]
  | HDecrementBy => [map (fun x => x - f fs 0)%float i0]
  | HPow => [map (fun x => npow x (f fs 0)) i0]
  | HSqrt => [map PrimFloat.sqrt i0]
  | HSign => [s_sign i0]
  | HKeepPositives => [s_keep_positives i0]
  | HKeepNegatives => [s_keep_negatives i0]
  | HRoundDigits => [s_round_digits (p ps 0) i0]
  | HSyncPeriod => [skipn (Z.to_nat (p ps 0 - p ps 1)) i0]
  end.

(* which inputs are consumed to the end: all of them, except that Head stops after [count] values *)
Definition consumed_model (h : helper) (ps : list Z) (ins : list (list float)) : list bool :=
  match h with
  | HHead => [Nat.leb (length (nth 0 ins [])) (Z.to_nat (p ps 0))]
  | _ => map (fun _ => true) ins
  end.

(* RoundDigits goes through math.Pow(10, d) and math.Round: tolerance-equal is accepted there *)
Definition outs_eq (h : helper) (a b : list (list float)) : bool :=
  match h with
  | HRoundDigits | HPow => list_eqb (list_eqb (fclose 0x1p-45%float 0x1p-60%float)) a b
  | _ => list_eqb (list_eqb fbits_eq) a b
  end.

Definition check (c : case) : nat :=
  match c with
  | CH h ps fs ins outs consumed =>
      (if outs_eq h outs (model h ps fs ins) then 0 else 1) +
      (if list_eqb Bool.eqb consumed (consumed_model h ps ins) then 0 else 2)
  end.

Definition mismatches (cs : list case) : list (nat * nat) := bad_indices check 0 cs.
