(* C12 correspondence: asset.Sync.Run executed on real repositories (in-memory or file-system target, in-memory source, injected
   failures, 1..8 workers, run twice on the same Sync value) against the model Sync/Sync.v and against the property stated
   directly on the observed contents.
   bit 0 (1): target contents or error flag after a run differ from the model ([sync], and the worker pool under a round-robin schedule);
   bit 1 (2): the property itself, evaluated on the observations without the model's job function:
              an asset that was requested and did not fail holds previous ++ exactly the source snapshots dated after its last
              date (on/after the default start when it had none); failing or unrequested assets are untouched; the error flag is
              set exactly when some requested asset failed; with chronologically ordered sources the second run adds nothing. *)
From Coq Require Import Floats ZArith Bool List.
Import ListNotations.
From Verif Require Import Base.FloatUtil Repo.Repo Sync.Sync Run.C10Run.

Definition contents := list (option (list snapR)).          (* what Get returned for names 0..3: None = error *)

Inductive case :=
  CSync (source target : spec (S:=snapR)) (explicit : list nat) (default_start : Z) (fail_get fail_app : list nat) (nworkers : nat)
        (sorted_sources : bool)
        (err1 : bool) (after1 : contents) (err2 : bool) (after2 : contents).

Definition mem (k : nat) (l : list nat) : bool := existsb (Nat.eqb k) l.
Definition opt_eqb (a b : option (list snapR)) : bool :=
  match a, b with Some x, Some y => list_eqb snap_eqb x y | None, None => true | _, _ => false end.
Definition contents_of (m : spec (S:=snapR)) : contents := map (fun k => lookup k m) (seq 0 4).
Definition contents_eqb (a b : contents) : bool := list_eqb opt_eqb a b.

(* the property, per asset, from the target as it was before the run *)
Definition expected_asset (src tgt : spec (S:=snapR)) (dflt : Z) (fg fa ks : list nat) (k : nat) : option (list snapR) :=
  let before := lookup k tgt in
  if negb (mem k ks) then before
  else if mem k fg || mem k fa then before
  else match lookup k src with
       | None => before
       | Some l =>
           let prev := match before with Some p => p | None => [] end in
           Some (prev ++ match rev prev with
                         | last :: _ => filter (fun s => Z.ltb (dateR last) (dateR s)) l
                         | [] => filter (fun s => Z.leb dflt (dateR s)) l
                         end)
       end.
Definition expected_err (src : spec (S:=snapR)) (fg fa ks : list nat) : bool :=
  existsb (fun k => mem k fg || mem k fa || match lookup k src with None => true | Some _ => false end) ks.

Definition bool_eqb (a b : bool) : bool := Bool.eqb a b.

Definition check (c : case) : nat :=
  match c with
  | CSync src tgt explicit dflt fg fa n sorted err1 after1 err2 after2 =>
      let e := mk_env src dflt (fun k => mem k fg) (fun k => mem k fa) in
      let ks := assets_of explicit tgt in
      let (t1, e1) := run_jobs dateR e tgt ks in
      let ks2 := match ks with [] => assets_of [] t1 | _ => ks end in      (* Sync.Assets keeps the list of the first run *)
      let (t2, e2) := run_jobs dateR e t1 ks2 in
      let p1 := run_schedule dateR e (init_pool n ks tgt) (round_robin n (5 * (List.length ks + 2))) in
      let model_ok := bool_eqb err1 e1 && contents_eqb after1 (contents_of t1) && bool_eqb err2 e2 && contents_eqb after2 (contents_of t2)
                      && finished p1 && contents_eqb (contents_of (Sync.target p1)) (contents_of t1) && bool_eqb (failed p1) e1 in
      let spec1 := map (expected_asset src tgt dflt fg fa ks) (seq 0 4) in
      let spec_ok := contents_eqb after1 spec1 && bool_eqb err1 (expected_err src fg fa ks)
                     && (if sorted then contents_eqb after2 after1 else true) && bool_eqb err2 (expected_err src fg fa ks2) in
      (if model_ok then 0 else 1) + (if spec_ok then 0 else 2)
  end.

Definition mismatches (cs : list case) : list (nat * nat) := bad_indices check 0 cs.
