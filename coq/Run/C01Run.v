(* C01 correspondence and oracle: every value of every output of an indicator against (bit 0) the regenerated model and
   (bit 1) the frozen reference Spec/IndicatorGolden.v, both at binary64, bit for bit (all NaNs identified).
   bit 3 (8): equal to the reference within the tolerance only (note); bit 2: an output never closed (admissible configuration). *)
From Coq Require Import Floats ZArith Bool List.
Import ListNotations.
From Verif Require Import Base.FloatUtil Base.Num Base.Stream Base.GenPrelude Gen.All Spec.IndicatorGolden Run.FlowRun Run.ValRun.

Inductive gcase :=
| CGold (outs gold : list (expr float float)) (adm : bool) (inputs : list (list float)) (obs : list (list float)) (hung : bool).

Definition check (c : gcase) : nat :=
  match c with
  | CGold outs gold adm inputs obs hung =>
      if hung then (if adm then 4 else 0)
      else
        let m := cmp_outs (map (fun e => sem e inputs) outs) obs in
        let g := cmp_outs (map (fun e => sem e inputs) gold) obs in
        (match m with 0 => 0 | 8 => 0 | _ => 1 end) + (match g with 0 => 0 | 8 => 8 | _ => 2 end)
  end.

Definition mismatches (cs : list gcase) : list (nat * nat) := bad_indices check 0 cs.
