(* C07 correspondence: combinators and decorators over stub strategies that replay chosen action words, against the
   regenerated model (a stub is a strategy whose Compute is the expression reading its word from the environment).
   bit 0: the observed actions differ from the model's; bit 1: see Run/C07Oracle.v. *)
From Coq Require Import Floats ZArith Bool List String.
Import ListNotations.
From Verif Require Import Base.FloatUtil Base.Num Base.Stream Base.GenPrelude Gen.All.
From Verif Require Export Run.C07Oracle.

Definition snapF := asset_Snapshot (T:=float).
Definition stratF := strategy_Strategy (I:=snapF) (T:=float).

(* word i is stored in environment slot i+1 as snapshots whose Date field carries the action *)
Definition stub (i : nat) : stratF := mk_strategy_Strategy (fun _ => EMap (@asset_Snapshot_Date float) (EIn (S i))).
Definition stubs (n : nat) : list stratF := map stub (seq 0 n).

Definition word_env (w : list Z) : list snapF := map (fun a => mk_asset_Snapshot a 0%float 0%float 0%float 0%float 0%float) w.
Definition bars_of (closes : list float) : list snapF := map (fun c => mk_asset_Snapshot 0%Z c c c c 0%float) closes.

Definition model (k : comb) (nw : nat) : expr snapF Z :=
  match k with
  | KAnd => strategy_AndStrategy_Compute (mk_strategy_AndStrategy (stubs nw) ""%string) (EIn 0)
  | KOr => strategy_OrStrategy_Compute (mk_strategy_OrStrategy (stubs nw) ""%string) (EIn 0)
  | KMajority => strategy_MajorityStrategy_Compute (mk_strategy_MajorityStrategy (stubs nw) ""%string) (EIn 0)
  | KSplit => strategy_SplitStrategy_Compute (mk_strategy_SplitStrategy (stub 0) (stub 1)) (EIn 0)
  | KInverse => strategy_decorator_InverseStrategy_Compute (mk_strategy_decorator_InverseStrategy (stub 0)) (EIn 0)
  | KNoLoss => strategy_decorator_NoLossStrategy_Compute (mk_strategy_decorator_NoLossStrategy (stub 0)) (EIn 0)
  | KStopLoss pct => strategy_decorator_StopLossStrategy_Compute (mk_strategy_decorator_StopLossStrategy (stub 0) pct) (EIn 0)
  end.

Definition check (c : case) : nat :=
  match c with
  | CComb k words closes obs =>
      let env := bars_of closes :: map word_env words in
      (if list_eqb Z.eqb obs (sem (model k (List.length words)) env) then 0 else 1) + (if spec_ok c then 0 else 2)
  end.

Definition mismatches (cs : list case) : list (nat * nat) := bad_indices check 0 cs.
