(* Shared runner for the dataflow properties: a case carries the model's output expressions
   (terms of the generated model instantiated at binary64), the inputs the harness fed to the real
   Compute, and what every output channel delivered. *)
From Coq Require Import Floats ZArith Bool List.
Import ListNotations.
From Verif Require Import Base.FloatUtil Base.Num Base.Stream Base.GenPrelude Gen.All Spec.Admissible.

Definition snap := asset_Snapshot (T:=float).

Inductive case :=
| CInd (outs : list (expr float float)) (idle : Z) (adm : bool)
       (inputs : list (list float)) (obs : list (list float)) (hung : bool)
| CStrat (out : expr snap Z) (idle : Z) (adm : bool)
         (bars : list snap) (obs : list Z) (hung : bool).

Definition all_same_length (ls : list (list float)) : option nat :=
  match ls with
  | [] => None
  | l :: ls' => if forallb (fun l' => Nat.eqb (length l') (length l)) ls' then Some (length l) else None
  end.

Definition list_Z_eqb := list_eqb Z.eqb.


(* strategy reports: what the date channel and every column channel delivered *)
From Coq Require Import String.
Inductive ocol := ONum (label : string) (vals : list float) | OAnn (vals : list string).

Inductive rcase :=
| CRep (r : report snap float) (acts : expr snap Z) (w : Z) (adm : bool) (bars : list snap)
       (dates : list Z) (cols : list ocol) (hung : bool).
