(* C08 correspondence: the observed streams against the regenerated model (binary64 instance), plus the oracle of
   Run/C08Oracle.v.  bit 0: an observed stream differs from the model's; bit 1: see C08Oracle. *)
From Coq Require Import Floats ZArith Bool List.
Import ListNotations.
From Verif Require Import Base.FloatUtil Base.Num Base.Stream Base.GenPrelude Gen.All.
From Verif Require Export Run.C08Oracle.

Definition I2 := (float * Z)%type.
Definition env2 (vals : list float) (acts : list Z) : list (list I2) :=
  [map (fun v => (v, 0%Z)) vals; map (fun a => (0%float, a)) acts].
Definition e_vals : expr I2 float := EMap fst (EIn 0).
Definition e_acts : expr I2 Z := EMap snd (EIn 1).

Definition m_outcome (vals : list float) (acts : list Z) : list float := sem (strategy_Outcome e_vals e_acts) (env2 vals acts).
Definition m_norm (acts : list Z) : list Z := sem (strategy_NormalizeActions e_acts) (env2 [] acts).
Definition m_denorm (acts : list Z) : list Z := sem (strategy_DenormalizeActions e_acts) (env2 [] acts).
Definition m_count (acts : list Z) : list Z := sem (strategy_CountTransactions e_acts) (env2 [] acts).

Definition check (c : case) : nat :=
  match c with
  | COut vals acts out norm denorm ndn out_norm count =>
      let model_ok :=
        list_eqb fbits_eq out (m_outcome vals acts) && lZ norm (m_norm acts) && lZ denorm (m_denorm acts) &&
        lZ ndn (m_norm (m_denorm (m_norm acts))) && list_eqb fbits_eq out_norm (m_outcome vals (m_norm acts)) &&
        lZ count (m_count acts) in
      (if model_ok then 0 else 1) + (if spec_ok c then 0 else 2)
  end.

Definition mismatches (cs : list case) : list (nat * nat) := bad_indices check 0 cs.
