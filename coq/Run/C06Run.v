(* C06 correspondence and oracle: the actions of a base strategy against (bit 0) the regenerated model and (bit 1) the
   documented behaviour of Spec/StrategyDoc.v evaluated at binary64 on the same snapshots.
   bit 2: the action stream never closed (admissible configuration). *)
From Coq Require Import Floats ZArith Bool List.
Import ListNotations.
From Verif Require Import Base.FloatUtil Base.Num Base.Stream Base.GenPrelude Gen.All Spec.StrategyDoc Run.FlowRun.

Inductive dcase :=
| CDoc (out doc : expr snap Z) (adm : bool) (bars : list snap) (obs : list Z) (hung : bool).

Definition check (c : dcase) : nat :=
  match c with
  | CDoc out doc adm bars obs hung =>
      if hung then (if adm then 4 else 0)
      else (if list_Z_eqb (sem out [bars]) obs then 0 else 1) +
           (if negb adm || list_Z_eqb (sem doc [bars]) obs then 0 else 2)
  end.

Definition mismatches (cs : list dcase) : list (nat * nat) := bad_indices check 0 cs.
