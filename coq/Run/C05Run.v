(* C05 correspondence and oracle: the action sequence of a strategy.
   bit 0: the implementation's actions differ from the model's;
   bit 1: the property fails on the implementation's output: with w the declared warm-up and n snapshots,
          n >= w -> exactly n actions and the first w are Hold; n < w -> only Holds and at least n; alphabet {-1,0,1};
   bit 2: the action stream never closed;
   bit 4 (16): signature 'exactly one surplus action' (required by the open findings on Alligator/SMMA). *)
From Coq Require Import Floats ZArith Bool List.
Import ListNotations.
From Verif Require Import Base.FloatUtil Base.Num Base.Stream Run.FlowRun.
(* wrappers are admissible when their sub-strategies are; the harness passes the wrapper's own adm (true) *)

Definition is_action_b (a : Z) : bool := Z.eqb a (-1) || Z.eqb a 0 || Z.eqb a 1.
Definition all_hold (l : list Z) : bool := forallb (Z.eqb 0) l.

Definition c05_ok (w n : nat) (acts : list Z) : bool :=
  forallb is_action_b acts &&
  (if Nat.leb w n then Nat.eqb (length acts) n && all_hold (firstn w acts)
   else Nat.leb n (length acts) && all_hold acts).

(* signature of the recorded Alligator/SMMA defect: exactly one surplus action, everything else in order *)
Definition sig_one_late (w n : nat) (acts : list Z) : bool :=
  forallb is_action_b acts && Nat.leb w (S n) && Nat.eqb (length acts) (S n) && all_hold (firstn w acts).

Definition check (c : case) : nat :=
  match c with
  | CStrat out w adm bars obs hung =>
      if hung then (if adm then 4 else 0)
      else (if list_Z_eqb (sem out [bars]) obs then 0 else 1) +
           (if negb adm || c05_ok (Z.to_nat w) (length bars) obs then 0 else 2) +
           (if sig_one_late (Z.to_nat w) (length bars) obs then 16 else 0)
  | _ => 0
  end.

Definition mismatches (cs : list case) : list (nat * nat) := bad_indices check 0 cs.
