(* C03 correspondence.
   KNet: a pipeline described in the language of Kahn/Helpers.v, built from the REAL helpers by the harness and run until every
         goroutine is finished or blocked for good, against one run of the network the description denotes (by
         one_run_decides_every_schedule that one run speaks for every schedule).
         bit 4 (16): the model and the implementation disagree on: did every reader finish, what did each reader receive, did any
         goroutine remain; or the description is not well formed / its capacities do not follow the rules of the Go code.
   KShape: a REAL indicator (Vwap, Mfm, Dema, Apo) run to quiescence against the network Kahn/Patterns.v gives for it, for the same
         periods, input lengths (equal or not) and input capacity: outputs closed, goroutines left, number of values delivered
         (bit 4, as for KNet). This ties the hand-written networks of Patterns.v, and the EMA-as-Skip abstraction, to the code.
   KGen: a real indicator / base strategy run against the network REGENERATED from its Go source (Gen/All.v, *_Compute_desc), same
         configuration, input lengths and capacity; compared like KShape, on admissible configurations.
   KFlow: an indicator or strategy run under a pacing / buffering / GOMAXPROCS variant (a ValRun case):
         bit 0: values differ from the regenerated model (so they are the same for every variant);
         bit 2: an output never closed, or a goroutine of the pipeline remained, although the configuration is admissible;
         bit 5 (32): signature only: the inputs of that run had different lengths. *)
From Coq Require Import Floats ZArith Bool List.
Import ListNotations.
From Verif Require Import Base.FloatUtil Kahn.Kahn Kahn.Helpers Kahn.HelpersProofs Kahn.Patterns Run.FlowRun Run.ValRun.

Inductive case :=
| KNet (d : desc) (fuel : nat) (readers_finished no_goroutine_left : bool) (received_by_readers : list (list nat))
| KShape (d : desc) (fuel : nat) (outputs_closed no_goroutine_left : bool) (output_lengths : list nat)
| KGen (adm : bool) (d : desc) (fuel : nat) (outputs_closed no_goroutine_left : bool) (output_lengths : list nat)
| KFlow (c : FlowRun.case).

(* the readers of the outputs are the last nodes of a description; readers before them are the pipeline's own helper.Drain calls *)
Definition lastn {A} (n : nat) (l : list A) : list A := skipn (List.length l - n) l.

Definition lists_eqb (a b : list (list nat)) : bool := list_eqb (list_eqb Nat.eqb) a b.

Definition check03 (c : case) : nat :=
  match c with
  | KNet d fuel fin clean recv =>
      if negb (wellformed d && caps_ok d) then 16
      else let t := run fuel (build d) in
           if negb (terminalb t) then 16
           else if Bool.eqb (sinks_done d t) fin && Bool.eqb (no_leak t) clean
                   && (if fin then lists_eqb (received d t) recv else true) then 0 else 16
  | KShape d fuel fin clean lens =>
      if negb (wellformed d && caps_ok d) then 16
      else let t := run fuel (build d) in
           if negb (terminalb t) then 16
           else if Bool.eqb (sinks_done d t) fin && Bool.eqb (no_leak t) clean
                   && (if fin then list_eqb Nat.eqb (lastn (List.length lens) (map (@List.length nat) (received d t))) lens else true) then 0 else 16
  | KGen adm d fuel fin clean lens =>
      (* a regenerated network: compared on admissible configurations only (shapes and trend.Ma calls are represented by their lag,
         which is exact about lengths and alignment but not about the slack inside a misaligned pipeline) *)
      if negb adm then 0
      else if negb (wellformed d && caps_ok d) then 16
      else let t := run fuel (build d) in
           if negb (terminalb t) then 16
           else if Bool.eqb (sinks_done d t) fin && Bool.eqb (no_leak t) clean
                   && (if fin then list_eqb Nat.eqb (lastn (List.length lens) (map (@List.length nat) (received d t))) lens else true) then 0 else 16
  | KFlow c' =>
      let r := ValRun.check c' in
      (* signature for the known findings: the run that did not finish had input channels of different lengths *)
      match c' with
      | CInd _ _ _ inputs _ _ =>
          if Nat.eqb r 0 then 0
          else match all_same_length inputs with None => r + 32 | Some _ => r end
      | _ => r
      end
  end.

Definition mismatches (cs : list case) : list (nat * nat) := bad_indices check03 0 cs.
