(* Value correspondence for the dataflow layer: the regenerated model, instantiated at binary64 and run by
   vm_compute, against what the real Compute delivered on every output channel.
   bit 0 (1): an output differs from the model beyond the tolerance (or in length);
   bit 3 (8): equal within the tolerance but not bit-for-bit (a note, not an alarm);
   bit 2 (4): an output never closed although the configuration is admissible. *)
From Coq Require Import Floats ZArith Bool List.
Import ListNotations.
From Verif Require Import Base.FloatUtil Base.Num Base.Stream Run.FlowRun.

Definition tol_rel : float := 0x1p-30%float.
Definition tol_abs : float := 0x1p-40%float.

Definition vals_exact (a b : list float) : bool := list_eqb fbits_eq a b.
Definition vals_close (a b : list float) : bool := list_eqb (fclose tol_rel tol_abs) a b.

Definition cmp_outs (model obs : list (list float)) : nat :=
  if list_eqb vals_exact model obs then 0
  else if list_eqb vals_close model obs then 8 else 1.

Definition check (c : case) : nat :=
  match c with
  | CInd outs idle adm inputs obs hung =>
      if hung then (if adm then 4 else 0)
      else cmp_outs (map (fun e => sem e inputs) outs) obs
  | CStrat out idle adm bars obs hung =>
      if hung then (if adm then 4 else 0)
      else if list_Z_eqb (sem out [bars]) obs then 0 else 1
  end.

Definition mismatches (cs : list case) : list (nat * nat) := bad_indices check 0 cs.
