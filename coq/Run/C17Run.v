(* Correspondence runner for C17: the harness writes the operation histories it issued to the
   real helper.Ring / helper.Bst together with the observed return values; this file runs the
   model (and the abstract specification) on the same histories inside Coq. *)
From Coq Require Import Floats ZArith Bool List.
Import ListNotations.
From Verif Require Import Base.FloatUtil Data.Ring Data.Bst.

Inductive case :=
| CRingZ (cap : nat) (ops : list (rop Z)) (outs : list (rout Z))
| CRingF (cap : nat) (ops : list (rop float)) (outs : list (rout float))
| CBstZ (ops : list (bop Z)) (outs : list (bout Z))
| CBstF (ops : list (bop float)) (outs : list (bout float)).

Definition rout_eqb {A} (eq : A -> A -> bool) (a b : rout A) : bool :=
  match a, b with
  | OVal x, OVal y => eq x y
  | ONone, ONone => true
  | OBool x, OBool y => Bool.eqb x y
  | _, _ => false
  end.

Definition rout_agrees {A} (eq : A -> A -> bool) (impl : rout A) (spec : option (rout A)) : bool :=
  match spec with None => true | Some s => rout_eqb eq impl s end.

Definition bout_eqb {A} (eq : A -> A -> bool) (a b : bout A) : bool :=
  match a, b with
  | BUnit, BUnit => true
  | BBool x, BBool y => Bool.eqb x y
  | BVal x, BVal y => eq x y
  | _, _ => false
  end.

Fixpoint list_agree {A B} (f : A -> B -> bool) (l1 : list A) (l2 : list B) : bool :=
  match l1, l2 with
  | [], [] => true
  | a :: l1', b :: l2' => f a b && list_agree f l1' l2'
  | _, _ => false
  end.

(* result code: 0 = ok; bit 0 = implementation differs from the model;
   bit 1 = implementation differs from the abstract specification (FIFO / multiset) *)
Definition code (model_ok spec_ok : bool) : nat :=
  (if model_ok then 0 else 1) + (if spec_ok then 0 else 2).

Definition check (c : case) : nat :=
  match c with
  | CRingZ cap ops outs =>
      code (list_eqb (rout_eqb Z.eqb) outs (rrun Z 0%Z (new_ring Z 0%Z cap) ops))
           (list_agree (rout_agrees Z.eqb) outs (frun Z 0%Z (fifo_new Z cap) ops))
  | CRingF cap ops outs =>
      code (list_eqb (rout_eqb fbits_eq) outs (rrun float 0%float (new_ring float 0%float cap) ops))
           (list_agree (rout_agrees fbits_eq) outs (frun float 0%float (fifo_new float cap) ops))
  | CBstZ ops outs =>
      code (list_eqb (bout_eqb Z.eqb) outs (brun Z 0%Z Z.leb Z.ltb Z.eqb Leaf ops))
           (list_eqb (bout_eqb Z.eqb) outs (mrun Z 0%Z Z.leb Z.eqb [] ops))
  | CBstF ops outs =>
      code (list_eqb (bout_eqb fbits_eq) outs
              (brun float 0%float PrimFloat.leb PrimFloat.ltb PrimFloat.eqb Leaf ops))
           (list_eqb (bout_eqb PrimFloat.eqb) outs
              (mrun float 0%float PrimFloat.leb PrimFloat.eqb [] ops))
  end.

Definition mismatches (cs : list case) : list (nat * nat) := bad_indices check 0 cs.
