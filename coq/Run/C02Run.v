(* C02 correspondence: projected observable = the number of values on every output. *)
From Coq Require Import Floats ZArith Bool List.
Import ListNotations.
From Verif Require Import Base.FloatUtil Base.Num Base.Stream Run.FlowRun.

(* bit 0: the implementation's output lengths differ from the model's;
   bit 1: admissible configuration, equal-length inputs, and some output does not have exactly
          max(0, n - idle) values;
   bit 2: some output never closed (admissible configuration). *)
Definition check (c : case) : nat :=
  match c with
  | CInd outs idle adm inputs obs hung =>
      let model := map (fun e => length (sem e inputs)) outs in
      let olens := map (@length float) obs in
      (* a run that did not complete has no list denotation: outside admissible configurations it is ignored *)
      let b0 := if hung then negb adm else list_eqb Nat.eqb model olens in
      let b1 :=
        if adm && negb hung then
          match all_same_length inputs with
          | Some n => forallb (fun k => Nat.eqb k (n - Z.to_nat idle)) olens
          | None => true
          end
        else true in
      (if b0 then 0 else 1) + (if b1 then 0 else 2) + (if adm && hung then 4 else 0)
  | CStrat _ _ _ _ _ _ => 0
  end.

Definition mismatches (cs : list case) : list (nat * nat) := bad_indices check 0 cs.
