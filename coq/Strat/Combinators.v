(* C07: And / Or / Majority / Split / MACD-RSI / Inverse / No-Loss / Stop-Loss are the documented functions of
   the wrapped strategies' action streams and the closing prices.  Statements are about the regenerated definitions. *)
From Coq Require Import List ZArith Bool Lia Reals Lra.
Import ListNotations.
From Verif Require Import Base.Num Base.Stream Base.StreamProofs Base.GenPrelude Gen.All Strat.StratOk Strat.StratWrap Strat.Outcome.

Local Open Scope Z_scope.

(* ------------------------------------------------------------------------------------------ *)
(* position-wise votes *)

(* number of Buy / Hold(other) / Sell in a column of standing recommendations *)
Fixpoint tally_col (col : list Z) : Z * Z * Z :=
  match col with
  | [] => (0, 0, 0)
  | a :: col' => let '(b, h, s) := tally_col col' in
                 if Z.eqb a (-1) then (b, h, s + 1) else if Z.eqb a 1 then (b + 1, h, s) else (b, h + 1, s)
  end.

Definition column (j : nat) (ls : list (list Z)) : list Z := map (fun l => nth j l 0) ls.

Lemma tally_add_comm_col (t : Z * Z * Z) (a : Z) (col : list Z) :
  fold_left tally_add col (tally_add t a) = tally_add (fold_left tally_add col t) a.
Proof.
  revert t. induction col as [|c col IH]; intros t; cbn [fold_left]; [reflexivity|].
  rewrite <- IH. f_equal. destruct t as [[b h] s]. unfold tally_add.
  destruct (Z.eqb a (-1)), (Z.eqb c (-1)), (Z.eqb a 1), (Z.eqb c 1); reflexivity.
Qed.

Lemma tally_col_fold (a : Z) (col : list Z) :
  tally_col (a :: col) = fold_left tally_add col (tally0 a).
Proof.
  revert a. induction col as [|c col IH]; intros a.
  - cbn. unfold tally0. destruct (Z.eqb a (-1)), (Z.eqb a 1); reflexivity.
  - cbn [fold_left].
    assert (H : fold_left tally_add col (tally_add (tally0 a) c) = tally_add (fold_left tally_add col (tally0 a)) c)
      by apply tally_add_comm_col.
    rewrite H, <- IH. cbn [tally_col]. destruct (tally_col col) as [[b h] s]. unfold tally_add.
    destruct (Z.eqb a (-1)), (Z.eqb c (-1)), (Z.eqb a 1), (Z.eqb c 1); reflexivity.
Qed.

Lemma nth_s_op2 {A B C} (f : A -> B -> C) (a : list A) (b : list B) (j : nat) da db dc :
  (j < length a)%nat -> (j < length b)%nat -> nth j (s_op2 f a b) dc = f (nth j a da) (nth j b db).
Proof.
  revert a b. induction j as [|j IH]; intros [|x a] [|y b] Ha Hb; cbn [length] in *; try lia; cbn [s_op2 nth]; [reflexivity|].
  apply IH; lia.
Qed.

(* the j-th tally is the tally of the j-th column *)
Lemma fold_tally_nth (rest : list (list Z)) (acc : list (Z * Z * Z)) (j : nat) d :
  (j < length acc)%nat -> Forall (fun l => (j < length l)%nat) rest ->
  nth j (fold_left (fun acc l => s_op2 tally_add acc l) rest acc) d = fold_left tally_add (column j rest) (nth j acc d).
Proof.
  revert acc. induction rest as [|l rest IH]; intros acc Hacc Hrest; cbn [fold_left column map]; [reflexivity|].
  inversion Hrest; subst. rewrite IH; [|rewrite s_op2_length; lia | assumption].
  f_equal. apply nth_s_op2; assumption.
Qed.

Theorem tallies_nth (l0 : list Z) (rest : list (list Z)) (j : nat) d :
  Forall (fun l => (j < length l)%nat) (l0 :: rest) ->
  nth j (tallies (l0 :: rest)) d = tally_col (column j (l0 :: rest)).
Proof.
  intros H. inversion H; subst. cbn [tallies column map]. rewrite tally_col_fold.
  rewrite (fold_tally_nth rest (map tally0 l0) j d); [| rewrite map_length; assumption | assumption].
  f_equal. rewrite (nth_indep _ d (tally0 0)) by (rewrite map_length; assumption). apply map_nth.
Qed.

Lemma fold_tally_length (rest : list (list Z)) (acc : list (Z * Z * Z)) :
  length (fold_left (fun acc l => s_op2 tally_add acc l) rest acc) = list_min (length acc) (map (@length Z) rest).
Proof.
  revert acc; induction rest as [|l rest IH]; intros acc; cbn [fold_left map list_min]; [reflexivity|].
  rewrite IH, s_op2_length. reflexivity.
Qed.

Theorem tallies_length_min (l0 : list Z) (rest : list (list Z)) :
  length (tallies (l0 :: rest)) = list_min (length l0) (map (@length Z) rest).
Proof. cbn [tallies]. rewrite fold_tally_length, map_length. reflexivity. Qed.

(* the three decisions, as predicates on the column of standing recommendations *)
Lemma tally_col_counts (col : list Z) :
  let '(b, h, s) := tally_col col in
  b = Z.of_nat (count_occ Z.eq_dec col 1) /\ s = Z.of_nat (count_occ Z.eq_dec col (-1)) /\
  (b + h + s = Z.of_nat (length col)) /\ 0 <= h.
Proof.
  induction col as [|a col IH]; cbn [tally_col count_occ length]; [repeat split; try reflexivity; lia|].
  destruct (tally_col col) as [[b h] s]. destruct IH as [Hb [Hs [Hn Hh]]].
  destruct (Z.eqb_spec a (-1)) as [->|Hn1].
  - destruct (Z.eq_dec (-1) 1); [lia|]. destruct (Z.eq_dec (-1) (-1)); [|lia]. repeat split; lia.
  - destruct (Z.eqb_spec a 1) as [->|Hn2].
    + destruct (Z.eq_dec 1 1); [|lia]. destruct (Z.eq_dec 1 (-1)); [lia|]. repeat split; lia.
    + destruct (Z.eq_dec a 1); [lia|]. destruct (Z.eq_dec a (-1)); [lia|]. repeat split; lia.
Qed.

Section Votes.
Context {T : Type} {N : Num T}.
Notation snap := (asset_Snapshot (T:=T)).
Notation strat := (strategy_Strategy (I:=snap) (T:=T)).

(* the standing (denormalised) recommendation streams of the wrapped strategies *)
Definition standing (ss : list strat) (e : expr snap snap) env : list (list Z) :=
  map (fun s => denormalize_l (sem (strategy_Strategy_Compute s e) env)) ss.

Lemma sources_standing (ss : list strat) e env :
  map (fun s => sem s env) (strategy_ActionSources ss e) = standing ss e env.
Proof. unfold strategy_ActionSources, standing. rewrite map_map. reflexivity. Qed.

Definition and_rule (k : Z) (t : Z * Z * Z) : Z := let '(buy, hold, sell) := t in if Z.eqb sell k then -1 else if Z.eqb buy k then 1 else 0.
Definition or_rule (t : Z * Z * Z) : Z := let '(buy, hold, sell) := t in
  if andb (Z.gtb sell 0) (Z.eqb buy 0) then -1 else if andb (Z.gtb buy 0) (Z.eqb sell 0) then 1 else 0.
Definition majority_rule (t : Z * Z * Z) : Z := let '(buy, hold, sell) := t in
  if andb (Z.gtb sell buy) (Z.gtb sell hold) then -1 else if andb (Z.gtb buy sell) (Z.gtb buy hold) then 1 else 0.

Theorem and_is_vote (a : strategy_AndStrategy (I:=snap) (T:=T)) s0 rest e env :
  strategy_AndStrategy_Strategies a = s0 :: rest ->
  sem (strategy_AndStrategy_Compute a e) env = map (and_rule (Z.of_nat (length (s0 :: rest)))) (tallies (standing (s0 :: rest) e env)).
Proof.
  intros Hss. unfold strategy_AndStrategy_Compute. cbv zeta. rewrite Hss. cbn [sem].
  rewrite sem_count_actions by (cbn; discriminate). rewrite sources_standing. reflexivity.
Qed.

Theorem or_is_vote (a : strategy_OrStrategy (I:=snap) (T:=T)) s0 rest e env :
  strategy_OrStrategy_Strategies a = s0 :: rest ->
  sem (strategy_OrStrategy_Compute a e) env = map or_rule (tallies (standing (s0 :: rest) e env)).
Proof.
  intros Hss. unfold strategy_OrStrategy_Compute. cbv zeta. rewrite Hss. cbn [sem].
  rewrite sem_count_actions by (cbn; discriminate). rewrite sources_standing. reflexivity.
Qed.

Theorem majority_is_vote (a : strategy_MajorityStrategy (I:=snap) (T:=T)) s0 rest e env :
  strategy_MajorityStrategy_Strategies a = s0 :: rest ->
  sem (strategy_MajorityStrategy_Compute a e) env = map majority_rule (tallies (standing (s0 :: rest) e env)).
Proof.
  intros Hss. unfold strategy_MajorityStrategy_Compute. cbv zeta. rewrite Hss. cbn [sem].
  rewrite sem_count_actions by (cbn; discriminate). rewrite sources_standing. reflexivity.
Qed.

(* And says Sell exactly when every standing recommendation is Sell, Buy when every one is Buy *)
Theorem and_rule_spec (col : list Z) :
  col <> [] ->
  (and_rule (Z.of_nat (length col)) (tally_col col) = -1 <-> Forall (eq (-1)) col) /\
  (and_rule (Z.of_nat (length col)) (tally_col col) = 1 <-> Forall (eq 1) col).
Proof.
  intros Hne. pose proof (tally_col_counts col) as Hc. destruct (tally_col col) as [[b h] s]. destruct Hc as [Hb [Hs [Hn Hh]]].
  assert (Hlen : (0 < length col)%nat) by (destruct col; [congruence | cbn; lia]).
  assert (HcS : forall x, count_occ Z.eq_dec col x = length col <-> Forall (eq x) col).
  { intros x. clear. induction col as [|a col IH]; cbn [count_occ length]; [split; [constructor | reflexivity]|].
    pose proof (count_occ_bound Z.eq_dec x col). destruct (Z.eq_dec a x) as [->|Hne].
    - split; intros H'; [constructor; [reflexivity | apply IH; lia] | inversion H'; subst; f_equal; apply IH; assumption].
    - split; intros H'; [lia | inversion H'; subst; congruence]. }
  pose proof (count_occ_bound Z.eq_dec 1 col). pose proof (count_occ_bound Z.eq_dec (-1) col).
  unfold and_rule. split.
  - destruct (Z.eqb_spec s (Z.of_nat (length col))) as [He|He].
    + split; [intros _; apply HcS; lia | reflexivity].
    + split; [destruct (Z.eqb b (Z.of_nat (length col))); discriminate | intros HF; apply HcS in HF; lia].
  - destruct (Z.eqb_spec s (Z.of_nat (length col))) as [He|He].
    + split; [discriminate | intros HF; apply HcS in HF; lia].
    + destruct (Z.eqb_spec b (Z.of_nat (length col))) as [He'|He'].
      * split; [intros _; apply HcS; lia | reflexivity].
      * split; [discriminate | intros HF; apply HcS in HF; lia].
Qed.

(* Or says Sell when some standing recommendation is Sell and none is Buy, Buy when some is Buy and none is Sell *)
Theorem or_rule_spec (col : list Z) :
  (or_rule (tally_col col) = -1 <-> (In (-1) col /\ ~ In 1 col)) /\
  (or_rule (tally_col col) = 1 <-> (In 1 col /\ ~ In (-1) col)).
Proof.
  pose proof (tally_col_counts col) as Hc. destruct (tally_col col) as [[b h] s]. destruct Hc as [Hb [Hs [Hn Hh]]].
  assert (Hin1 : In 1 col <-> b > 0) by (rewrite (count_occ_In Z.eq_dec col 1); lia).
  assert (Hinm1 : In (-1) col <-> s > 0) by (rewrite (count_occ_In Z.eq_dec col (-1)); lia).
  rewrite Hin1, Hinm1. unfold or_rule.
  destruct (Z.gtb_spec s 0), (Z.eqb_spec b 0), (Z.gtb_spec b 0), (Z.eqb_spec s 0); cbn [andb];
    intuition (try discriminate; try lia).
Qed.

(* Majority says Sell when Sell outnumbers both Buy and Hold, Buy when Buy outnumbers both Sell and Hold *)
Theorem majority_rule_spec (col : list Z) :
  let sells := Z.of_nat (count_occ Z.eq_dec col (-1)) in
  let buys := Z.of_nat (count_occ Z.eq_dec col 1) in
  let holds := Z.of_nat (length col) - sells - buys in
  (majority_rule (tally_col col) = -1 <-> (sells > buys /\ sells > holds)) /\
  (majority_rule (tally_col col) = 1 <-> (~ (sells > buys /\ sells > holds) /\ buys > sells /\ buys > holds)).
Proof.
  pose proof (tally_col_counts col) as Hc. destruct (tally_col col) as [[b h] s]. destruct Hc as [Hb [Hs [Hn Hh]]].
  cbv zeta. unfold majority_rule.
  destruct (Z.gtb_spec s b), (Z.gtb_spec s h), (Z.gtb_spec b s), (Z.gtb_spec b h); cbn [andb];
    split; split; intros HH; try discriminate; try reflexivity; try lia.
Qed.

(* Split takes Buy from the first and Sell from the second unless they conflict *)
Definition split_rule (buyAction sellAction : Z) : Z :=
  if andb (Z.eqb buyAction 1) (zneb sellAction (-1)) then 1
  else if andb (Z.eqb sellAction (-1)) (zneb buyAction 1) then -1 else 0.

Theorem split_is_zip (s : strategy_SplitStrategy (I:=snap) (T:=T)) e env :
  sem (strategy_SplitStrategy_Compute s e) env =
  s_op2 split_rule (sem (strategy_Strategy_Compute (strategy_SplitStrategy_BuyStrategy s) e) env)
                   (sem (strategy_Strategy_Compute (strategy_SplitStrategy_SellStrategy s) e) env).
Proof. reflexivity. Qed.

Theorem split_rule_spec (b s : Z) :
  (split_rule b s = 1 <-> (b = 1 /\ s <> -1)) /\ (split_rule b s = -1 <-> (s = -1 /\ b <> 1)).
Proof.
  unfold split_rule, zneb.
  destruct (Z.eqb_spec b 1), (Z.eqb_spec s (-1)); cbn; split; split; intros H; try discriminate; try reflexivity; try lia;
    destruct H; try lia; try contradiction.
Qed.

(* MACD-RSI agrees with both standing recommendations or holds *)
Theorem macd_rsi_is_zip (m : strategy_compound_MacdRsiStrategy (T:=T)) (e : expr snap snap) env :
  sem (strategy_compound_MacdRsiStrategy_Compute m e) env =
  s_op2 (fun a b => if Z.eqb a b then a else 0)
        (denormalize_l (sem (strategy_trend_MacdStrategy_Compute (strategy_compound_MacdRsiStrategy_MacdStrategy m) e) env))
        (denormalize_l (sem (strategy_momentum_RsiStrategy_Compute (strategy_compound_MacdRsiStrategy_RsiStrategy m) e) env)).
Proof. reflexivity. Qed.

(* Inverse swaps Buy and Sell *)
Definition inverse_rule (a : Z) : Z := if Z.eqb a 1 then -1 else if Z.eqb a (-1) then 1 else 0.

Theorem inverse_is_map (i : strategy_decorator_InverseStrategy (I:=snap) (T:=T)) e env :
  sem (strategy_decorator_InverseStrategy_Compute i e) env =
  map inverse_rule (sem (strategy_Strategy_Compute (strategy_decorator_InverseStrategy_InnerStrategy i) e) env).
Proof. reflexivity. Qed.

Theorem inverse_involutive (a : Z) : is_act a -> inverse_rule (inverse_rule a) = a.
Proof. intros [-> | [-> | ->]]; reflexivity. Qed.

Theorem inverse_rule_spec (a : Z) : is_act a -> inverse_rule a = - a.
Proof. intros [-> | [-> | ->]]; reflexivity. Qed.
End Votes.

(* ------------------------------------------------------------------------------------------ *)
(* No-Loss and Stop-Loss over the reals: refinement to specifications whose state is an option
   (invested at a remembered price, or not invested) instead of the number 0 *)

Local Open Scope R_scope.

Definition nl_step : R -> Z -> R -> R * Z := fun boughtAt action closing =>
  if andb (Z.eqb action 1) (Reqb boughtAt 0) then (closing, 1%Z)
  else if andb (andb (Z.eqb action (-1)) (negb (Reqb boughtAt 0))) (Rltb boughtAt closing) then (0, (-1)%Z)
  else (boughtAt, 0%Z).

Definition noloss_l (acts : list Z) (closes : list R) : list Z := s_op2st nl_step 0 acts closes.

Definition sl_step (pct : R) : R -> Z -> R -> R * Z := fun stopLossAt action closing =>
  if andb (Z.eqb action 1) (Reqb stopLossAt 0) then (closing * (1 - pct), 1%Z)
  else if andb (negb (Reqb stopLossAt 0)) (orb (Z.eqb action (-1)) (Rleb closing stopLossAt)) then (0, (-1)%Z)
  else (stopLossAt, 0%Z).

Definition stoploss_l (pct : R) (acts : list Z) (closes : list R) : list Z := s_op2st (sl_step pct) 0 acts closes.

Section Decorators.
Notation snap := (asset_Snapshot (T:=R)).
Notation strat := (strategy_Strategy (I:=snap) (T:=R)).

Theorem noloss_is_generated (d : strategy_decorator_NoLossStrategy (I:=snap) (T:=R)) (e : expr snap snap) env :
  sem (strategy_decorator_NoLossStrategy_Compute d e) env =
  noloss_l (sem (strategy_Strategy_Compute (strategy_decorator_NoLossStrategy_InnertStrategy d) e) env)
           (map (@asset_Snapshot_Close R) (sem e env)).
Proof. reflexivity. Qed.

Theorem stoploss_is_generated (d : strategy_decorator_StopLossStrategy (I:=snap) (T:=R)) (e : expr snap snap) env :
  sem (strategy_decorator_StopLossStrategy_Compute d e) env =
  stoploss_l (strategy_decorator_StopLossStrategy_Percentage d)
             (sem (strategy_Strategy_Compute (strategy_decorator_StopLossStrategy_InnertStrategy d) e) env)
             (map (@asset_Snapshot_Close R) (sem e env)).
Proof. reflexivity. Qed.
End Decorators.

(* specifications *)
Fixpoint noloss_spec (bought : option R) (acts : list Z) (closes : list R) : list Z :=
  match acts, closes with
  | a :: acts', c :: closes' =>
      match bought with
      | None => if Z.eqb a 1 then 1%Z :: noloss_spec (Some c) acts' closes' else 0%Z :: noloss_spec None acts' closes'
      | Some b => if andb (Z.eqb a (-1)) (Rltb b c) then (-1)%Z :: noloss_spec None acts' closes'
                  else 0%Z :: noloss_spec (Some b) acts' closes'
      end
  | _, _ => []
  end.

Fixpoint stoploss_spec (pct : R) (stop : option R) (acts : list Z) (closes : list R) : list Z :=
  match acts, closes with
  | a :: acts', c :: closes' =>
      match stop with
      | None => if Z.eqb a 1 then 1%Z :: stoploss_spec pct (Some (c * (1 - pct))) acts' closes'
                else 0%Z :: stoploss_spec pct None acts' closes'
      | Some s => if orb (Z.eqb a (-1)) (Rleb c s) then (-1)%Z :: stoploss_spec pct None acts' closes'
                  else 0%Z :: stoploss_spec pct (Some s) acts' closes'
      end
  | _, _ => []
  end.

Definition enc (o : option R) : R := match o with None => 0 | Some x => x end.
Definition enc_ok (o : option R) : Prop := match o with None => True | Some x => 0 < x end.

Lemma Reqb_0_0 : Reqb 0 0 = true. Proof. apply Reqb_true. reflexivity. Qed.
Lemma Reqb_pos x : 0 < x -> Reqb x 0 = false.
Proof. intros H. unfold Reqb. destruct (Req_EM_T x 0); [lra | reflexivity]. Qed.

Theorem noloss_refines_from (o : option R) (acts : list Z) (closes : list R) :
  enc_ok o -> Forall (fun c => 0 < c) closes ->
  s_op2st nl_step (enc o) acts closes = noloss_spec o acts closes.
Proof.
  revert o closes. induction acts as [|a acts IH]; intros o [|c closes] Ho Hc; cbn [s_op2st noloss_spec]; try reflexivity.
  inversion Hc; subst. unfold nl_step at 1. destruct o as [b|]; cbn [enc enc_ok] in *.
  - rewrite (Reqb_pos b Ho). rewrite andb_false_r. cbn [negb]. rewrite andb_true_r.
    destruct (Z.eqb a (-1) && Rltb b c); f_equal.
    + apply (IH None); [exact I | assumption].
    + apply (IH (Some b)); assumption.
  - rewrite Reqb_0_0. rewrite andb_true_r. destruct (Z.eqb a 1); cbn [negb]; rewrite ?andb_false_r; cbn [andb]; f_equal.
    + apply (IH (Some c)); assumption.
    + apply (IH None); [exact I | assumption].
Qed.

(* C07: No-Loss is the specification with an explicit "invested at price b" state *)
Theorem noloss_refines (acts : list Z) (closes : list R) :
  Forall (fun c => 0 < c) closes -> noloss_l acts closes = noloss_spec None acts closes.
Proof. intros H. apply (noloss_refines_from None); [exact I | exact H]. Qed.

(* safety: every emitted Sell is at a close above the close of the preceding emitted Buy; Buys and Sells alternate *)
Fixpoint noloss_safe (bought : option R) (out : list Z) (closes : list R) : Prop :=
  match out, closes with
  | x :: out', c :: closes' =>
      if Z.eqb x 1 then bought = None /\ noloss_safe (Some c) out' closes'
      else if Z.eqb x (-1) then (exists b, bought = Some b /\ b < c) /\ noloss_safe None out' closes'
      else noloss_safe bought out' closes'
  | _, _ => True
  end.

Theorem noloss_spec_safe (o : option R) (acts : list Z) (closes : list R) :
  noloss_safe o (noloss_spec o acts closes) closes.
Proof.
  revert o closes. induction acts as [|a acts IH]; intros o [|c closes]; cbn [noloss_spec noloss_safe]; try exact I.
  destruct o as [b|].
  - destruct (Z.eqb a (-1) && Rltb b c) eqn:E; cbn [noloss_safe Z.eqb].
    + split; [exists b; split; [reflexivity|] | apply IH]. apply andb_prop in E. apply Rltb_true. apply E.
    + apply IH.
  - destruct (Z.eqb a 1); cbn [noloss_safe Z.eqb]; [split; [reflexivity | apply IH] | apply IH].
Qed.

Theorem noloss_safety (acts : list Z) (closes : list R) :
  Forall (fun c => 0 < c) closes -> noloss_safe None (noloss_l acts closes) closes.
Proof. intros H. rewrite noloss_refines by exact H. apply noloss_spec_safe. Qed.

(* C07: Stop-Loss is the specification: after an emitted Buy at close b it sells at the first position where the inner strategy
   says Sell or the close is at or below b x (1 - pct) *)
Theorem stoploss_refines_from (pct : R) (o : option R) (acts : list Z) (closes : list R) :
  pct < 1 -> enc_ok o -> Forall (fun c => 0 < c) closes ->
  s_op2st (sl_step pct) (enc o) acts closes = stoploss_spec pct o acts closes.
Proof.
  intros Hp. revert o closes. induction acts as [|a acts IH]; intros o [|c closes] Ho Hc; cbn [s_op2st stoploss_spec]; try reflexivity.
  inversion Hc; subst. unfold sl_step at 1. destruct o as [s|]; cbn [enc enc_ok] in *.
  - rewrite (Reqb_pos s Ho). rewrite andb_false_r. cbn [negb andb].
    destruct (Z.eqb a (-1) || Rleb c s); f_equal.
    + apply (IH None); [exact I | assumption].
    + apply (IH (Some s)); assumption.
  - rewrite Reqb_0_0. rewrite andb_true_r. destruct (Z.eqb a 1); cbn [negb andb]; f_equal.
    + apply (IH (Some (c * (1 - pct)))); [cbn; apply Rmult_lt_0_compat; lra | assumption].
    + apply (IH None); [exact I | assumption].
Qed.

Theorem stoploss_refines (pct : R) (acts : list Z) (closes : list R) :
  pct < 1 -> Forall (fun c => 0 < c) closes -> stoploss_l pct acts closes = stoploss_spec pct None acts closes.
Proof. intros Hp H. apply (stoploss_refines_from pct None); [exact Hp | exact I | exact H]. Qed.

(* the excluded branch: with a stop level of exactly 0 (pct = 1) the "not invested" encoding collides *)
Example stoploss_pct_one_refuted :
  stoploss_l 1 [1; 0; 1]%Z [10; 5; 7] <> stoploss_spec 1 None [1; 0; 1]%Z [10; 5; 7].
Proof.
  assert (H5 : Rleb 5 (10 * (1 - 1)) = false) by (apply Rleb_false; lra).
  assert (H7 : Rleb 7 (10 * (1 - 1)) = false) by (apply Rleb_false; lra).
  assert (H0 : Reqb (10 * (1 - 1)) 0 = true) by (apply Reqb_true; lra).
  unfold stoploss_l. cbn [s_op2st stoploss_spec]. unfold sl_step.
  rewrite Reqb_0_0. cbn [Z.eqb andb negb orb Pos.eqb]. rewrite H0. cbn [Z.eqb andb negb orb Pos.eqb].
  rewrite H0. cbn [andb negb]. rewrite H5, H7. cbn [orb]. intros H. inversion H.
Qed.
