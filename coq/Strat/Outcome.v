(* C08: strategy.Outcome is an all-in/all-out portfolio simulation; NormalizeActions / DenormalizeActions /
   CountTransactions algebra.  Theorems are about the regenerated definitions (Gen.All), over the reals. *)
From Coq Require Import List ZArith Bool Lia Reals Lra.
Import ListNotations.
From Verif Require Import Base.Num Base.Stream Base.StreamProofs Base.GenPrelude Gen.All.

Local Open Scope R_scope.

(* ------------------------------------------------------------------------------------------ *)
(* the concrete step of the regenerated Outcome closure, at the real-number instance *)

Definition ostep : R * R -> R -> Z -> (R * R) * R := fun '(balance, shares) value action =>
  if andb (Rltb 0 balance) (Z.eqb action 1) then
    let shares := balance / value in let balance := 0 in ((balance, shares), balance + shares * value - 1)
  else if andb (Rltb 0 shares) (Z.eqb action (-1)) then
    let balance := shares * value in let shares := 0 in ((balance, shares), balance + shares * value - 1)
  else ((balance, shares), balance + shares * value - 1).

Definition outcome_l (vals : list R) (acts : list Z) : list R := s_op2st ostep (1, 0) vals acts.

(* tie to the generated definition: definitional *)
Lemma outcome_l_is_generated {I} (ev : expr I R) (ea : expr I Z) env :
  sem (strategy_Outcome (T:=R) ev ea) env = outcome_l (sem ev env) (sem ea env).
Proof. unfold strategy_Outcome, outcome_l. cbn [sem]. unfold ostep. cbv [ngtb nltb nofZ NumR nadd nsub nmul ndiv]. reflexivity. Qed.

(* ------------------------------------------------------------------------------------------ *)
(* the abstract portfolio *)

Inductive pstate := Cash (c : R) | Invested (u : R).

Definition pstep (s : pstate) (v : R) (a : Z) : pstate :=
  match s with
  | Cash c => if Z.eqb a 1 then Invested (c / v) else s
  | Invested u => if Z.eqb a (-1) then Cash (u * v) else s
  end.

Definition pvalue (s : pstate) (v : R) : R := match s with Cash c => c | Invested u => u * v end.

Fixpoint portfolio (s : pstate) (vals : list R) (acts : list Z) : list R :=
  match vals, acts with
  | v :: vals', a :: acts' => let s' := pstep s v a in (pvalue s' v - 1) :: portfolio s' vals' acts'
  | _, _ => []
  end.

(* well-formed portfolio: a positive amount of cash or a positive number of units *)
Definition pwf (s : pstate) : Prop := match s with Cash c => 0 < c | Invested u => 0 < u end.

Definition conc (s : pstate) : R * R := match s with Cash c => (c, 0) | Invested u => (0, u) end.

Lemma Rltb_0_0 : Rltb 0 0 = false.
Proof. apply Rltb_false. lra. Qed.

Lemma ostep_refines (s : pstate) (v : R) (a : Z) :
  pwf s -> 0 < v ->
  ostep (conc s) v a = (conc (pstep s v a), pvalue (pstep s v a) v - 1) /\ pwf (pstep s v a).
Proof.
  intros Hs Hv. destruct s as [c|u]; cbn [conc pstep pwf] in *; unfold ostep.
  - assert (Hc : Rltb 0 c = true) by (apply Rltb_true; exact Hs). rewrite Hc. cbn [andb].
    destruct (Z.eqb a 1) eqn:Ha.
    + cbn [conc pvalue pwf]. split.
      * f_equal. field_simplify_eq; [lra | lra].
      * apply Rdiv_lt_0_compat; assumption.
    + rewrite Rltb_0_0. cbn [andb conc pvalue pwf]. split; [f_equal; lra | exact Hs].
  - rewrite Rltb_0_0. cbn [andb].
    assert (Hu : Rltb 0 u = true) by (apply Rltb_true; exact Hs). rewrite Hu. cbn [andb].
    destruct (Z.eqb a (-1)) eqn:Ha.
    + cbn [conc pvalue pwf]. split; [f_equal; lra | apply Rmult_lt_0_compat; assumption].
    + cbn [conc pvalue pwf]. split; [f_equal; lra | exact Hs].
Qed.

Theorem outcome_refines_portfolio_from (s : pstate) (vals : list R) (acts : list Z) :
  pwf s -> Forall (fun v => 0 < v) vals ->
  s_op2st ostep (conc s) vals acts = portfolio s vals acts.
Proof.
  revert s acts. induction vals as [|v vals IH]; intros s [|a acts] Hs Hv; cbn [s_op2st portfolio]; try reflexivity.
  inversion Hv as [|? ? Hv0 Hvr]; subst.
  destruct (ostep_refines s v a Hs Hv0) as [Heq Hwf]. rewrite Heq. f_equal. apply IH; assumption.
Qed.

(* C08 (1): the outcome stream is the relative gain of the all-in/all-out portfolio starting with one unit of cash *)
Theorem outcome_refines_portfolio (vals : list R) (acts : list Z) :
  Forall (fun v => 0 < v) vals -> outcome_l vals acts = portfolio (Cash 1) vals acts.
Proof. intros Hv. apply (outcome_refines_portfolio_from (Cash 1)); [cbn; lra | exact Hv]. Qed.

(* C08 (2): one entry per (value, action) pair *)
Theorem outcome_length (vals : list R) (acts : list Z) :
  length (outcome_l vals acts) = Nat.min (length vals) (length acts).
Proof. apply s_op2st_length. Qed.

(* C08 (3): never below -100% *)
Lemma portfolio_gt_m1 (s : pstate) (vals : list R) (acts : list Z) :
  pwf s -> Forall (fun v => 0 < v) vals -> Forall (fun o => -1 < o) (portfolio s vals acts).
Proof.
  revert s acts. induction vals as [|v vals IH]; intros s [|a acts] Hs Hv; cbn [portfolio]; try constructor.
  - inversion Hv; subst. destruct (ostep_refines s v a Hs H1) as [_ Hwf].
    destruct (pstep s v a) as [c|u]; cbn [pvalue pwf] in *; [lra|]. pose proof (Rmult_lt_0_compat u v Hwf H1). lra.
  - inversion Hv; subst. apply IH; [apply (ostep_refines s v a Hs H1) | assumption].
Qed.

Theorem outcome_ge_m1 (vals : list R) (acts : list Z) :
  Forall (fun v => 0 < v) vals -> Forall (fun o => -1 <= o) (outcome_l vals acts).
Proof.
  intros Hv. rewrite outcome_refines_portfolio by exact Hv.
  eapply Forall_impl; [|apply portfolio_gt_m1; [cbn; lra | exact Hv]]. cbv beta. intros; lra.
Qed.

(* C08 (4): 0 until the first Buy *)
Theorem outcome_zero_before_first_buy (vals : list R) (acts : list Z) (k : nat) :
  Forall (fun v => 0 < v) vals -> Forall (fun a => a <> 1%Z) (firstn k acts) ->
  Forall (fun o => o = 0) (firstn k (outcome_l vals acts)).
Proof.
  intros Hv. rewrite outcome_refines_portfolio by exact Hv. clear Hv.
  revert acts k. induction vals as [|v vals IH]; intros [|a acts] [|k] Hk; cbn [portfolio firstn]; try constructor.
  - cbn [firstn] in Hk. inversion Hk; subst. cbn [pstep]. destruct (Z.eqb_spec a 1); [contradiction|]. cbn. lra.
  - cbn [firstn] in Hk. inversion Hk; subst. cbn [pstep]. destruct (Z.eqb_spec a 1); [contradiction|]. apply IH. assumption.
Qed.

(* C08 (5): buy-and-hold earns value_i / value_0 - 1 *)
Lemma portfolio_hold (u : R) (vals : list R) :
  portfolio (Invested u) vals (repeat 0%Z (length vals)) = map (fun v => u * v - 1) vals.
Proof. induction vals as [|v vals IH]; cbn [portfolio repeat length map pstep Z.eqb pvalue]; [reflexivity|]. f_equal. exact IH. Qed.

Theorem outcome_buy_and_hold (v0 : R) (vals : list R) :
  0 < v0 -> Forall (fun v => 0 < v) vals ->
  outcome_l (v0 :: vals) (1%Z :: repeat 0%Z (length vals)) = map (fun v => v / v0 - 1) (v0 :: vals).
Proof.
  intros H0 Hv. rewrite outcome_refines_portfolio by (constructor; assumption).
  cbn [portfolio pstep map]. change (Z.eqb 1 1) with true. cbn [pvalue]. f_equal; [field; lra|].
  rewrite portfolio_hold. apply map_ext. intros v. field. lra.
Qed.

(* exactly one of balance / shares is non-zero at every step (the concrete state is always [conc s] for a
   well-formed abstract state) *)
Theorem outcome_state_one_sided (vals : list R) (acts : list Z) :
  Forall (fun v => 0 < v) vals ->
  forall k, exists s, pwf s /\
    fold_left (fun st va => fst (ostep st (fst va) (snd va))) (firstn k (combine vals acts)) (1, 0) = conc s.
Proof.
  intros Hv k.
  assert (H : forall (l : list (R * Z)) s0, pwf s0 -> Forall (fun va => 0 < fst va) l ->
             exists s, pwf s /\ fold_left (fun st va => fst (ostep st (fst va) (snd va))) l (conc s0) = conc s).
  { induction l as [|[v a] l IH]; intros s0 Hs0 Hl; cbn [fold_left]; [exists s0; split; [exact Hs0 | reflexivity]|].
    inversion Hl; subst. cbn [fst snd] in *. destruct (ostep_refines s0 v a Hs0 H1) as [Heq Hwf]. rewrite Heq. cbn [fst].
    apply IH; assumption. }
  apply (H _ (Cash 1)); [cbn; lra|].
  assert (Hc : Forall (fun va : R * Z => (0 < fst va)%R) (combine vals acts)).
  { clear -Hv. revert acts. induction Hv; intros [|a acts]; cbn [combine]; constructor; auto. }
  clear -Hc. revert k. induction Hc; intros [|k]; cbn [firstn]; constructor; auto.
Qed.

(* ------------------------------------------------------------------------------------------ *)
(* NormalizeActions / DenormalizeActions / CountTransactions: the regenerated closures on lists *)

Local Open Scope Z_scope.

Definition nstep (last a : Z) : Z * Z := if zneb a 0 && zneb a last then (a, a) else (last, 0).
Definition dstep (last a : Z) : Z * Z := if zneb a 0 && zneb a last then (a, a) else (last, last).
Definition normalize_from (last : Z) (l : list Z) : list Z := s_mapst nstep last l.
Definition normalize_l (l : list Z) : list Z := normalize_from (-1) l.
Definition denormalize_from (last : Z) (l : list Z) : list Z := s_mapst dstep last l.
Definition denormalize_l (l : list Z) : list Z := denormalize_from 0 l.

Lemma normalize_l_is_generated {I} (e : expr I Z) env :
  sem (strategy_NormalizeActions e) env = normalize_l (sem e env).
Proof. reflexivity. Qed.
Lemma denormalize_l_is_generated {I} (e : expr I Z) env :
  sem (strategy_DenormalizeActions e) env = denormalize_l (sem e env).
Proof. reflexivity. Qed.

Definition is_act (a : Z) : Prop := a = -1 \/ a = 0 \/ a = 1.

(* the standing side of the portfolio agrees with the last emitted normalised action *)
Definition side (s : pstate) (last : Z) : Prop :=
  match s with Cash _ => last = -1 | Invested _ => last = 1 end.

Lemma portfolio_normalize_from (s : pstate) (last : Z) (vals : list R) (acts : list Z) :
  side s last -> Forall is_act acts ->
  portfolio s vals acts = portfolio s vals (normalize_from last acts).
Proof.
  revert s last acts. induction vals as [|v vals IH]; intros s last [|a acts] Hside Hacts; cbn [portfolio normalize_from s_mapst]; try reflexivity.
  inversion Hacts as [|? ? Ha Hr]; subst. unfold normalize_from in *.
  unfold nstep at 1. destruct s as [c|u]; cbn [side] in Hside; subst last;
    destruct Ha as [-> | [-> | ->]]; cbn;
    (f_equal; apply IH; [cbn [side]; reflexivity | exact Hr]).
Qed.

(* C08 (6): the outcome is unchanged when redundant repeated actions are removed *)
Theorem outcome_normalize (vals : list R) (acts : list Z) :
  Forall (fun v => (0 < v)%R) vals -> Forall is_act acts ->
  outcome_l vals acts = outcome_l vals (normalize_l acts).
Proof.
  intros Hv Ha. rewrite !outcome_refines_portfolio by exact Hv.
  apply portfolio_normalize_from; [reflexivity | exact Ha].
Qed.

(* C08 (7): normalised streams strictly alternate Buy and Sell, starting with Buy *)
Fixpoint alternates (expect : Z) (l : list Z) : Prop :=
  match l with
  | [] => True
  | a :: l' => if Z.eqb a 0 then alternates expect l' else a = expect /\ alternates (- expect) l'
  end.

Lemma normalize_from_alternates (last : Z) (acts : list Z) :
  last = 1 \/ last = -1 -> Forall is_act acts -> alternates (- last) (normalize_from last acts).
Proof.
  revert last. induction acts as [|a acts IH]; intros last Hl Hacts; cbn [normalize_from s_mapst alternates]; [exact I|].
  inversion Hacts as [|? ? Ha Hr]; subst. unfold normalize_from in *. unfold nstep at 1.
  destruct Hl as [-> | ->]; destruct Ha as [-> | [-> | ->]]; cbn;
    try (apply (IH 1); [left; reflexivity | exact Hr]);
    try (apply (IH (-1)); [right; reflexivity | exact Hr]);
    (split; [reflexivity|]).
  - apply (IH (-1)); [right; reflexivity | exact Hr].
  - apply (IH 1); [left; reflexivity | exact Hr].
Qed.

Theorem normalize_alternates (acts : list Z) :
  Forall is_act acts -> alternates 1 (normalize_l acts).
Proof. intros H. apply (normalize_from_alternates (-1)); [right; reflexivity | exact H]. Qed.

(* C08 (8): denormalising then normalising is the identity on normalised streams *)
Lemma normalize_denormalize_from (lastN lastD : Z) (l : list Z) :
  (lastN = 1 \/ lastN = -1) -> (lastD = lastN \/ lastD = 0) ->
  alternates (- lastN) l -> Forall is_act l ->
  normalize_from lastN (denormalize_from lastD l) = l.
Proof.
  revert lastN lastD. induction l as [|a l IH]; intros lastN lastD HN HD Halt Hacts; [reflexivity|].
  inversion Hacts as [|? ? Ha Hr]; subst.
  unfold normalize_from, denormalize_from in *. cbn [s_mapst]. unfold dstep at 1.
  cbn [alternates] in Halt.
  destruct Ha as [-> | [-> | ->]]; cbn [Z.eqb] in Halt.
  - (* Sell: expected, so lastN = 1 *)
    destruct Halt as [He Halt]. assert (lastN = 1) by lia. subst lastN.
    destruct HD as [-> | ->]; cbn; unfold nstep at 1; cbn;
      (f_equal; apply (IH (-1) (-1)); [right; reflexivity | left; reflexivity | exact Halt | exact Hr]).
  - (* Hold *)
    cbn [zneb Z.eqb negb andb s_mapst]. unfold nstep at 1.
    destruct HD as [-> | ->].
    + assert (Hz : zneb lastN 0 && zneb lastN lastN = false).
      { unfold zneb. rewrite Z.eqb_refl. cbn. apply andb_false_r. }
      rewrite Hz. f_equal. apply IH; [exact HN | left; reflexivity | exact Halt | exact Hr].
    + cbn [zneb Z.eqb negb andb]. f_equal. apply IH; [exact HN | right; reflexivity | exact Halt | exact Hr].
  - (* Buy: expected, so lastN = -1 *)
    destruct Halt as [He Halt]. assert (lastN = -1) by lia. subst lastN.
    destruct HD as [-> | ->]; cbn; unfold nstep at 1; cbn;
      (f_equal; apply (IH 1 1); [left; reflexivity | left; reflexivity | exact Halt | exact Hr]).
Qed.

Theorem normalize_denormalize_id (l : list Z) :
  alternates 1 l -> Forall is_act l -> normalize_l (denormalize_l l) = l.
Proof. intros Ha Hl. apply (normalize_denormalize_from (-1) 0); [right; reflexivity | right; reflexivity | exact Ha | exact Hl]. Qed.

Corollary normalize_denormalize_normalize (acts : list Z) :
  Forall is_act acts -> normalize_l (denormalize_l (normalize_l acts)) = normalize_l acts.
Proof.
  intros H. apply normalize_denormalize_id; [apply normalize_alternates; exact H|].
  clear -H. unfold normalize_l, normalize_from. generalize (-1). induction H as [|a l Ha _ IH]; intros last; cbn [s_mapst]; [constructor|].
  unfold nstep at 1. destruct (zneb a 0 && zneb a last); constructor; auto. right; left; reflexivity.
Qed.

(* CountTransactions: the running number of non-Hold actions *)
Definition count_tx (l : list Z) : list Z := s_mapst (fun t a => if zneb a 0 then (t + 1, t + 1) else (t, t)) 0 l.
Lemma count_tx_is_generated {I} (e : expr I Z) env : sem (strategy_CountTransactions e) env = count_tx (sem e env).
Proof. reflexivity. Qed.

Theorem count_tx_spec (l : list Z) (i : nat) :
  (i < length l)%nat ->
  nth i (count_tx l) 0 = Z.of_nat (length (filter (fun a => zneb a 0) (firstn (S i) l))).
Proof.
  unfold count_tx.
  assert (H : forall l t i, (i < length l)%nat ->
            nth i (s_mapst (fun t a => if zneb a 0 then (t + 1, t + 1) else (t, t)) t l) 0 =
            t + Z.of_nat (length (filter (fun a => zneb a 0) (firstn (S i) l)))).
  { induction l0 as [|a l0 IH]; intros t j Hj; cbn [length] in Hj; [lia|].
    cbn [s_mapst]. destruct j as [|j].
    - cbn [firstn filter]. destruct (zneb a 0); cbn [nth length]; lia.
    - change (firstn (S (S j)) (a :: l0)) with (a :: firstn (S j) l0). cbn [filter].
      destruct (zneb a 0); cbn [nth length]; rewrite IH by lia; lia. }
  intros Hi. rewrite H by exact Hi. lia.
Qed.
