(* Closure of the C05 contract (Strat/StratOk.v) under the library's combinators and decorators:
   DenormalizeActions, CountActions-based votes (And / Or / Majority), Split, MACD-RSI, Inverse,
   No-Loss and Stop-Loss, for arbitrary wrapped strategies that keep the contract themselves. *)
From Coq Require Import List ZArith Bool Lia.
Import ListNotations.
From Verif Require Import Base.Num Base.Stream Base.StreamProofs Base.GenPrelude Gen.All Strat.StratOk.

Set Implicit Arguments.

(* ------------------------------------------------------------------------------------------ *)
(* [pz z w l]: the first w elements of l (as many as there are) all equal z *)

Definition pz {A} (z : A) (w : nat) (l : list A) : Prop := firstn w l = repeat z (Nat.min w (length l)).

Lemma pz_nil {A} (z : A) w : pz z w [].
Proof. unfold pz. rewrite firstn_nil, Nat.min_0_r. reflexivity. Qed.

Lemma pz_cons_inv {A} (z x : A) w l : pz z (S w) (x :: l) -> x = z /\ pz z w l.
Proof. unfold pz; cbn. intros H. injection H as Hx Hl. split; assumption. Qed.

Lemma pz_cons {A} (z : A) w l : pz z w l -> pz z (S w) (z :: l).
Proof. unfold pz; cbn. intros ->. reflexivity. Qed.

Lemma pz_0 {A} (z : A) l : pz z 0 l.
Proof. reflexivity. Qed.

Lemma pz_le {A} (z : A) w w' l : w' <= w -> pz z w l -> pz z w' l.
Proof.
  revert w w'. induction l as [|x l IH]; intros w w' Hle H; [apply pz_nil|].
  destruct w' as [|w']; [apply pz_0|]. destruct w as [|w]; [lia|].
  apply pz_cons_inv in H. destruct H as [-> H]. apply pz_cons. apply (IH w); [lia | exact H].
Qed.

Lemma pz_all {A} (z : A) l : Forall (eq z) l <-> pz z (length l) l.
Proof.
  induction l as [|x l IH]; cbn [length].
  - split; intros; [apply pz_nil | constructor].
  - split; intros H.
    + inversion H; subst. apply pz_cons. apply IH. assumption.
    + apply pz_cons_inv in H. destruct H as [-> H]. constructor; [reflexivity | apply IH; exact H].
Qed.

Lemma pz_all_ge {A} (z : A) w l : length l <= w -> pz z w l -> Forall (eq z) l.
Proof. intros Hle H. apply pz_all. apply (pz_le (w:=w)); assumption. Qed.

Lemma pz_of_all {A} (z : A) w l : Forall (eq z) l -> pz z w l.
Proof.
  revert w; induction l as [|x l IH]; intros w H; [apply pz_nil|].
  inversion H; subst. destruct w; [apply pz_0 | apply pz_cons; apply IH; assumption].
Qed.

Lemma pz_firstn_repeat {A} (z : A) w l : w <= length l -> pz z w l -> firstn w l = repeat z w.
Proof. unfold pz. intros Hle ->. rewrite Nat.min_l by lia. reflexivity. Qed.

Lemma pz_of_firstn {A} (z : A) w l : firstn w l = repeat z w -> pz z w l.
Proof.
  unfold pz. intros H. rewrite H. f_equal.
  assert (length (firstn w l) = w) by (rewrite H; apply repeat_length).
  rewrite firstn_length in H0. lia.
Qed.

Lemma pz_map {A B} (f : A -> B) (z : A) w l : pz z w l -> pz (f z) w (map f l).
Proof.
  revert w; induction l as [|x l IH]; intros w H; [apply pz_nil|].
  destruct w; [apply pz_0|]. apply pz_cons_inv in H. destruct H as [-> H]. cbn [map]. apply pz_cons. apply IH. exact H.
Qed.

Lemma pz_op2 {A B C} (f : A -> B -> C) (x : A) (y : B) w a b :
  pz x w a -> pz y w b -> pz (f x y) w (s_op2 f a b).
Proof.
  revert w b; induction a as [|u a IH]; intros w [|v b] Ha Hb; cbn [s_op2]; try apply pz_nil.
  destruct w; [apply pz_0|].
  apply pz_cons_inv in Ha. destruct Ha as [-> Ha]. apply pz_cons_inv in Hb. destruct Hb as [-> Hb].
  apply pz_cons. apply IH; assumption.
Qed.

Lemma pz_mapst {A B S} (f : S -> A -> S * B) (s0 : S) (x : A) (y : B) w l :
  f s0 x = (s0, y) -> pz x w l -> pz y w (s_mapst f s0 l).
Proof.
  intros Hf. revert w; induction l as [|u l IH]; intros w H; cbn [s_mapst]; [apply pz_nil|].
  destruct w; [destruct (f s0 u); apply pz_0|].
  apply pz_cons_inv in H. destruct H as [-> H]. rewrite Hf. apply pz_cons. apply IH. exact H.
Qed.

Lemma pz_op2st {A B C S} (f : S -> A -> B -> S * C) (s0 : S) (x : A) (z : C) w a b :
  (forall y, f s0 x y = (s0, z)) -> pz x w a -> pz z w (s_op2st f s0 a b).
Proof.
  intros Hf. revert w b; induction a as [|u a IH]; intros w [|v b] Ha; cbn [s_op2st]; try apply pz_nil.
  destruct w; [destruct (f s0 u v); apply pz_0|].
  apply pz_cons_inv in Ha. destruct Ha as [-> Ha]. rewrite Hf. apply pz_cons. apply IH. exact Ha.
Qed.

(* ------------------------------------------------------------------------------------------ *)
(* the contract on lists *)

Definition lok (n w : nat) (l : list Z) : Prop :=
  Forall is_action l /\
  n <= length l /\ (w <= n -> length l = n) /\
  pz 0%Z w l /\ (n < w -> Forall (eq 0%Z) l).

Lemma strat_ok_lok {I} (F : expr I I -> expr I Z) w :
  strat_ok F w <-> forall e env, lok (length (sem e env)) w (sem (F e) env).
Proof.
  unfold strat_ok, lok. split; intros H e env; specialize (H e env); cbv zeta in *.
  - destruct H as [Ha [H1 H2]]. split; [exact Ha|].
    destruct (Nat.le_gt_cases w (length (sem e env))) as [Hn|Hn].
    + destruct (H1 Hn) as [Hl Hf]. repeat split; try lia. apply pz_of_firstn. exact Hf.
    + destruct (H2 Hn) as [Hl Hz]. repeat split; try lia; try assumption; try (intros _; exact Hz). apply pz_of_all. exact Hz.
  - destruct H as [Ha [Hn [Hl [Hp Hz]]]]. split; [exact Ha|]. split.
    + intros Hw. split; [apply Hl; exact Hw|]. apply pz_firstn_repeat; [rewrite (Hl Hw); exact Hw | exact Hp].
    + intros Hw. split; [exact Hn | apply Hz; exact Hw].
Qed.

(* a wrapper that maps every action pointwise (Inverse) *)
Lemma lok_map (f : Z -> Z) n w l :
  f 0%Z = 0%Z -> (forall a, is_action (f a)) -> lok n w l -> lok n w (map f l).
Proof.
  intros Hf0 Hfa [Ha [Hn [Hl [Hp Hz]]]]. unfold lok. rewrite map_length.
  repeat split; try assumption.
  - apply Forall_map. apply Forall_forall. intros; apply Hfa.
  - rewrite <- Hf0. apply pz_map. exact Hp.
  - intros Hw. specialize (Hz Hw). apply Forall_map. eapply Forall_impl; [|exact Hz]. intros a <-. symmetry; exact Hf0.
Qed.

(* a stateful pointwise map whose initial state is kept, and whose output is Hold, while the input is Hold
   (DenormalizeActions); Inv is an invariant of the state under which outputs are actions *)
Lemma lok_mapst {S} (Inv : S -> Prop) (f : S -> Z -> S * Z) (s0 : S) n w l :
  f s0 0%Z = (s0, 0%Z) -> Inv s0 ->
  (forall s a, Inv s -> is_action a -> Inv (fst (f s a)) /\ is_action (snd (f s a))) ->
  lok n w l -> lok n w (s_mapst f s0 l).
Proof.
  intros Hf0 Hi0 Hfa [Ha [Hn [Hl [Hp Hz]]]]. unfold lok. rewrite s_mapst_length.
  repeat split; try assumption.
  - clear -Ha Hfa Hi0. revert s0 Hi0. induction l as [|x l IH]; intros s0 Hi0; cbn [s_mapst]; [constructor|].
    inversion Ha; subst. specialize (Hfa s0 x Hi0 H1). destruct (f s0 x) as [s' y]. cbn in Hfa. destruct Hfa as [Hi' Hy].
    constructor; [exact Hy | apply IH; assumption].
  - eapply pz_mapst; eassumption.
  - intros Hw. specialize (Hz Hw). apply (pz_all_ge (w:=length l)); [rewrite s_mapst_length; lia|].
    eapply pz_mapst; [exact Hf0|]. apply pz_all. exact Hz.
Qed.

Lemma Forall_s_op2_both {A B C} (P : A -> Prop) (Q : B -> Prop) (R : C -> Prop) (f : A -> B -> C) :
  (forall x y, P x -> Q y -> R (f x y)) -> forall a b, Forall P a -> Forall Q b -> Forall R (s_op2 f a b).
Proof.
  intros H a. induction a as [|x a IH]; intros [|y b] Ha Hb; cbn [s_op2]; try constructor.
  - inversion Ha; inversion Hb; subst. auto.
  - inversion Ha; inversion Hb; subst. auto.
Qed.

(* zip of two contract-keeping streams with a Hold-preserving operator (Split, MACD-RSI) *)
Lemma lok_op2 (f : Z -> Z -> Z) n w1 w2 a b :
  f 0%Z 0%Z = 0%Z -> (forall x y, is_action x -> is_action y -> is_action (f x y)) ->
  lok n w1 a -> lok n w2 b -> lok n (Nat.min w1 w2) (s_op2 f a b).
Proof.
  intros Hf0 Hfa [Ha1 [Hn1 [Hl1 [Hp1 Hz1]]]] [Ha2 [Hn2 [Hl2 [Hp2 Hz2]]]].
  unfold lok. rewrite s_op2_length.
  split; [apply (Forall_s_op2_both (P:=is_action) (Q:=is_action)); assumption|].
  split; [lia|]. split.
  - intros Hw. destruct (Nat.le_gt_cases w1 n) as [H|H]; destruct (Nat.le_gt_cases w2 n) as [H'|H'];
      try lia; try (rewrite (Hl1 H); lia); try (rewrite (Hl2 H'); lia).
  - split.
    + rewrite <- Hf0. apply pz_op2; [apply (pz_le (w:=w1)); [lia | exact Hp1] | apply (pz_le (w:=w2)); [lia | exact Hp2]].
    + intros Hw. apply (pz_all_ge (w:=Nat.max (length a) (length b))); [rewrite s_op2_length; lia|].
      rewrite <- Hf0. apply pz_op2; apply pz_of_all; [apply Hz1 | apply Hz2]; lia.
Qed.

(* an action stream zipped with the closings by a stateful operator that stays in its initial state, emitting
   Hold, while the action is Hold (No-Loss, Stop-Loss) *)
Lemma lok_op2st_closings {S B} (f : S -> Z -> B -> S * Z) (s0 : S) n w a (c : list B) :
  (forall y, f s0 0%Z y = (s0, 0%Z)) -> (forall s x y, is_action (snd (f s x y))) ->
  length c = n -> lok n w a -> lok n w (s_op2st f s0 a c).
Proof.
  intros Hf0 Hfa Hc [Ha [Hn [Hl [Hp Hz]]]]. unfold lok. rewrite s_op2st_length, Hc.
  split; [apply Forall_s_op2st; exact Hfa|].
  split; [lia|]. split; [intros; lia|]. split.
  - eapply pz_op2st; eassumption.
  - intros Hw. apply (pz_all_ge (w:=length a)); [rewrite s_op2st_length; lia|].
    eapply pz_op2st; [exact Hf0|]. apply pz_all. apply Hz. exact Hw.
Qed.

(* ------------------------------------------------------------------------------------------ *)
(* votes: CountActions over k >= 1 sources, then a decision on the tally *)

Definition tallies (ls : list (list Z)) : list (Z * Z * Z) :=
  match ls with
  | [] => []
  | l0 :: rest => fold_left (fun acc l => s_op2 tally_add acc l) rest (map tally0 l0)
  end.

Lemma sem_count_actions {I} (d : expr I (Z * Z * Z)) (srcs : list (expr I Z)) env :
  srcs <> [] -> sem (count_actions d srcs) env = tallies (map (fun s => sem s env) srcs).
Proof.
  destruct srcs as [|s0 rest]; [congruence|]. intros _. cbn [count_actions tallies map].
  change (map tally0 (sem s0 env)) with (sem (EMap tally0 s0) env).
  generalize (EMap tally0 s0) as acc. induction rest as [|s rest IH]; intros acc; cbn [fold_left map]; [reflexivity|].
  rewrite IH. reflexivity.
Qed.

Definition list_min (d : nat) (l : list nat) : nat := fold_left Nat.min l d.

(* the tally of a position at which every one of k sources says Hold *)
Definition hold_tally (k : nat) : Z * Z * Z := (0, Z.of_nat k, 0)%Z.

Lemma hold_tally_S k : tally_add (hold_tally k) 0%Z = hold_tally (S k).
Proof. unfold hold_tally, tally_add. cbn [Z.eqb]. f_equal. f_equal. lia. Qed.

(* the contract, on tally streams of k sources *)
Definition tok (n w k : nat) (t : list (Z * Z * Z)) : Prop :=
  n <= length t /\ (w <= n -> length t = n) /\
  pz (hold_tally k) w t /\ (n < w -> Forall (eq (hold_tally k)) t).

Lemma tok_base n w l : lok n w l -> tok n w 1 (map tally0 l).
Proof.
  intros [_ [Hn [Hl [Hp Hz]]]]. unfold tok. rewrite map_length. repeat split; try assumption.
  - change (hold_tally 1) with (tally0 0%Z). apply pz_map. exact Hp.
  - intros Hw. specialize (Hz Hw). apply Forall_map. eapply Forall_impl; [|exact Hz]. intros a <-. reflexivity.
Qed.

Lemma tok_step n w w' k acc l :
  tok n w k acc -> lok n w' l -> tok n (Nat.min w w') (S k) (s_op2 tally_add acc l).
Proof.
  intros [Hn1 [Hl1 [Hp1 Hz1]]] [_ [Hn2 [Hl2 [Hp2 Hz2]]]]. unfold tok. rewrite s_op2_length.
  split; [lia|]. split; [|split].
  - intros Hw. destruct (Nat.le_gt_cases w n) as [H|H]; destruct (Nat.le_gt_cases w' n) as [H'|H'];
      try lia; try (rewrite (Hl1 H); lia); try (rewrite (Hl2 H'); lia).
  - rewrite <- hold_tally_S. apply pz_op2; [apply (pz_le (w:=w)); [lia | exact Hp1] | apply (pz_le (w:=w')); [lia | exact Hp2]].
  - intros Hw. apply (pz_all_ge (w:=Nat.max (length acc) (length l))); [rewrite s_op2_length; lia|].
    rewrite <- hold_tally_S. apply pz_op2; apply pz_of_all; [apply Hz1 | apply Hz2]; lia.
Qed.

Lemma tok_fold n (wr : list nat) (rest : list (list Z)) :
  Forall2 (lok n) wr rest ->
  forall w k acc, tok n w k acc ->
  tok n (list_min w wr) (k + length rest) (fold_left (fun acc l => s_op2 tally_add acc l) rest acc).
Proof.
  induction 1 as [|w' l wr rest Hl _ IH]; intros w k acc Hacc; cbn [fold_left list_min length].
  - rewrite Nat.add_0_r. exact Hacc.
  - replace (k + S (length rest)) with (S k + length rest) by lia. apply IH. apply tok_step; assumption.
Qed.

Lemma lok_of_tok (g : Z * Z * Z -> Z) n w k t :
  g (hold_tally k) = 0%Z -> (forall x, is_action (g x)) -> tok n w k t -> lok n w (map g t).
Proof.
  intros Hg0 Hga [Hn [Hl [Hp Hz]]]. unfold lok. rewrite map_length. repeat split; try assumption.
  - apply Forall_map. apply Forall_forall. intros; apply Hga.
  - rewrite <- Hg0. apply pz_map. exact Hp.
  - intros Hw. specialize (Hz Hw). apply Forall_map. eapply Forall_impl; [|exact Hz]. intros a <-. symmetry; exact Hg0.
Qed.

(* a vote: decision g on the tally; g says Hold when every source says Hold *)
Lemma lok_vote (g : Z * Z * Z -> Z) n w0 (wr : list nat) l0 (rest : list (list Z)) :
  lok n w0 l0 -> Forall2 (lok n) wr rest ->
  g (hold_tally (S (length rest))) = 0%Z -> (forall t, is_action (g t)) ->
  lok n (list_min w0 wr) (map g (tallies (l0 :: rest))).
Proof.
  intros H0 Hr Hg0 Hga. cbn [tallies].
  eapply lok_of_tok; [exact Hg0 | exact Hga|].
  change (S (length rest)) with (1 + length rest). apply tok_fold; [exact Hr | apply tok_base; exact H0].
Qed.
