(* C05 vocabulary and generic lemmas: what it means for a strategy (a function from a snapshot
   expression to an action expression) to emit one action per snapshot with Hold through its
   warm-up, and closure of that contract under the library's combinators and decorators. *)
From Coq Require Import List ZArith Bool Lia.
Import ListNotations.
From Verif Require Import Base.Num Base.Stream Base.StreamProofs Base.GenPrelude.

Set Implicit Arguments.

Definition is_action (a : Z) : Prop := a = (-1)%Z \/ a = 0%Z \/ a = 1%Z.

Lemma is_action_m1 : is_action (-1). Proof. left; reflexivity. Qed.
Lemma is_action_0 : is_action 0. Proof. right; left; reflexivity. Qed.
Lemma is_action_1 : is_action 1. Proof. right; right; reflexivity. Qed.
#[export] Hint Resolve is_action_m1 is_action_0 is_action_1 : actdb.

(* ------------------------------------------------------------------------------------------ *)
(* A syntactic sufficient condition for "every element of the denotation satisfies P":
   the outermost value-producing node only ever produces values in P. *)

Fixpoint eall {I A} (e : expr I A) : (A -> Prop) -> Prop :=
  match e in expr _ A return (A -> Prop) -> Prop with
  | ESkip _ e' | EHead _ e' | EFirst _ e' | EBuf _ e' => fun P => eall e' P
  | EShift _ fill e' => fun P => P fill /\ eall e' P
  | EMap f _ => fun P => forall x, P (f x)
  | EMapSt _ f _ => fun P => forall s x, P (snd (f s x))
  | EOp2 f _ _ => fun P => forall x y, P (f x y)
  | EOp2St _ f _ _ => fun P => forall s x y, P (snd (f s x y))
  | EOp3 f _ _ _ => fun P => forall x y z, P (f x y z)
  | EOp3St _ f _ _ _ => fun P => forall s x y z, P (snd (f s x y z))
  | EBuyHold buy hold _ => fun P => P buy /\ P hold
  | _ => fun _ => False
  end.

Lemma Forall_s_mapst {A B S} (P : B -> Prop) (f : S -> A -> S * B) :
  (forall s x, P (snd (f s x))) -> forall l s, Forall P (s_mapst f s l).
Proof.
  intros H l. induction l as [|x l IH]; intros s; cbn [s_mapst]; [constructor|].
  specialize (H s x). destruct (f s x) as [s' y]. constructor; [exact H | apply IH].
Qed.

Lemma Forall_s_op2 {A B C} (P : C -> Prop) (f : A -> B -> C) :
  (forall x y, P (f x y)) -> forall a b, Forall P (s_op2 f a b).
Proof.
  intros H a. induction a as [|x a IH]; intros [|y b]; cbn [s_op2]; try constructor; auto.
Qed.

Lemma Forall_s_op2st {A B C S} (P : C -> Prop) (f : S -> A -> B -> S * C) :
  (forall s x y, P (snd (f s x y))) -> forall a b s, Forall P (s_op2st f s a b).
Proof.
  intros H a. induction a as [|x a IH]; intros [|y b] s; cbn [s_op2st]; try constructor.
  specialize (H s x y). destruct (f s x y) as [s' z]. constructor; [exact H | apply IH].
Qed.

Lemma Forall_s_op3 {A B C D} (P : D -> Prop) (f : A -> B -> C -> D) :
  (forall x y z, P (f x y z)) -> forall a b c, Forall P (s_op3 f a b c).
Proof.
  intros H a. induction a as [|x a IH]; intros [|y b] [|z c]; cbn [s_op3]; try constructor; auto.
Qed.

Lemma Forall_s_op3st {A B C D S} (P : D -> Prop) (f : S -> A -> B -> C -> S * D) :
  (forall s x y z, P (snd (f s x y z))) -> forall a b c s, Forall P (s_op3st f s a b c).
Proof.
  intros H a. induction a as [|x a IH]; intros [|y b] [|z c] s; cbn [s_op3st]; try constructor.
  specialize (H s x y z). destruct (f s x y z) as [s' r]. constructor; [exact H | apply IH].
Qed.

Lemma Forall_skipn {A} (P : A -> Prop) n (l : list A) : Forall P l -> Forall P (skipn n l).
Proof. revert l; induction n as [|n IH]; intros [|x l] H; cbn; auto. inversion H; auto. Qed.
Lemma Forall_firstn {A} (P : A -> Prop) n (l : list A) : Forall P l -> Forall P (firstn n l).
Proof. revert l; induction n as [|n IH]; intros [|x l] H; cbn; auto. inversion H; subst; constructor; auto. Qed.
Lemma Forall_repeat {A} (P : A -> Prop) x n : P x -> Forall P (repeat x n).
Proof. intros H; induction n; cbn; constructor; auto. Qed.

Theorem sem_eall : forall I A (e : expr I A) (P : A -> Prop) (env : list (list I)),
  eall e P -> Forall P (sem e env).
Proof.
  intros I A0 e.
  induction e as
    [ k
    | X Y f e IH
    | X Y S s0 f e IH
    | X k e IH
    | X k fill e IH
    | X k e IH
    | X k e IH
    | X k e IH
    | X Y Z f a IHa b IHb
    | X Y Z S s0 f a IHa b IHb
    | X Y Z W f a IHa b IHb c IHc
    | X Y Z W S s0 f a IHa b IHb c IHc
    | T O N from e IH
    | T seed IHseed p step e IH
    | T N cl IHcl scs IHscs
    | T N p e IH
    | X Y buy hold e IH ]; intros P env H; cbn [sem eall] in *; try contradiction.
  - apply Forall_map. apply Forall_forall. intros x _. apply H.
  - apply Forall_s_mapst. exact H.
  - apply Forall_skipn. apply IH. exact H.
  - destruct H as [Hf H]. unfold s_shift. apply Forall_app. split; [apply Forall_repeat; exact Hf | apply IH; exact H].
  - apply Forall_firstn. apply IH. exact H.
  - apply Forall_firstn. apply IH. exact H.
  - apply IH. exact H.
  - apply Forall_s_op2. exact H.
  - apply Forall_s_op2st. exact H.
  - apply Forall_s_op3. exact H.
  - apply Forall_s_op3st. exact H.
  - destruct H as [Hb Hh]. unfold s_buy_and_hold. destruct (sem e env) as [|x l]; constructor; [exact Hb|].
    apply Forall_map. apply Forall_forall. intros y _. exact Hh.
Qed.

(* ------------------------------------------------------------------------------------------ *)
(* The contract *)

Section Contract.
Context {I : Type}.

Definition strat_ok (F : expr I I -> expr I Z) (w : nat) : Prop :=
  forall (e : expr I I) (env : list (list I)),
    let n := length (sem e env) in
    let out := sem (F e) env in
    Forall is_action out /\
    (w <= n -> length out = n /\ firstn w out = repeat 0%Z w) /\
    (n < w -> n <= length out /\ Forall (eq 0%Z) out).

(* a base strategy: actions computed from an indicator lagging k positions, re-anchored by Shift(k, Hold) *)
Lemma shifted_strat_ok (F : expr I I -> expr I Z) (k : Z) :
  (forall e, exists body, F e = EShift k 0%Z body /\
                          (forall ns, elen body ns = elen e ns - Z.to_nat k) /\ eall body is_action) ->
  (0 <= k)%Z ->
  strat_ok F (Z.to_nat (warm_of F)).
Proof.
  intros HF Hk.
  assert (Hw : warm_of F = k).
  { unfold warm_of. destruct (HF (EIn 0)) as [b [Hb _]]. rewrite Hb. reflexivity. }
  rewrite Hw. intros e env n out. subst n out.
  destruct (HF e) as [body [HFe [Hlen Hall]]]. rewrite HFe. cbn [sem]. unfold s_shift.
  pose proof (Hlen (map (@length _) env)) as Hl. rewrite <- !sem_length in Hl.
  split; [|split].
  - apply Forall_app. split; [apply Forall_repeat; apply is_action_0 | apply sem_eall; apply Hall].
  - intros Hn. split.
    + rewrite app_length, repeat_length, Hl. lia.
    + rewrite firstn_app, repeat_length, Nat.sub_diag, firstn_O, app_nil_r.
      rewrite firstn_all2 by (rewrite repeat_length; lia). reflexivity.
  - intros Hn. split.
    + rewrite app_length, repeat_length. lia.
    + assert (Hz : sem body env = []) by (apply length_zero_iff_nil; lia).
      rewrite Hz, app_nil_r. apply Forall_repeat. reflexivity.
Qed.

(* a strategy that emits exactly one action per snapshot from the first one on *)
Lemma unshifted_strat_ok (F : expr I I -> expr I Z) :
  (forall e ns, elen (F e) ns = elen e ns) ->
  (forall e, eall (F e) is_action) ->
  (forall e, eshift_of (F e) = 0%Z) ->
  strat_ok F (Z.to_nat (warm_of F)).
Proof.
  intros Hlen Hall Hs. unfold warm_of. rewrite Hs. cbn.
  intros e env n out. subst n out.
  pose proof (Hlen e (map (@length _) env)) as Hl. rewrite <- !sem_length in Hl.
  split; [|split].
  - apply sem_eall. apply Hall.
  - intros _. split; [exact Hl | reflexivity].
  - intros Hn. lia.
Qed.

End Contract.

(* ------------------------------------------------------------------------------------------ *)
(* zero prefixes and pointwise stateful maps *)

Lemma firstn_repeat_le {A} (x : A) m n : m <= n -> firstn m (repeat x n) = repeat x m.
Proof. revert n; induction m as [|m IH]; intros [|n] H; cbn; try reflexivity; try lia. f_equal. apply IH. lia. Qed.

Definition zeros_upto (w : nat) (l : list Z) : Prop := firstn w l = repeat 0%Z (Nat.min w (length l)).

Lemma zeros_upto_of_ok w (l : list Z) n :
  (w <= n -> length l = n /\ firstn w l = repeat 0%Z w) ->
  (n < w -> n <= length l /\ Forall (eq 0%Z) l) ->
  forall w', w' <= w -> zeros_upto w' l.
Proof.
  intros H1 H2 w' Hw'. unfold zeros_upto.
  destruct (Nat.le_gt_cases w n) as [Hn|Hn].
  - destruct (H1 Hn) as [Hl Hf].
    rewrite Nat.min_l by lia.
    assert (firstn w' l = firstn w' (firstn w l)) as -> by (rewrite firstn_firstn, Nat.min_l by lia; reflexivity).
    rewrite Hf. rewrite firstn_repeat_le by lia. reflexivity.
  - destruct (H2 Hn) as [Hl Hall].
    assert (Hrep : forall m (l0 : list Z), Forall (eq 0%Z) l0 -> firstn m l0 = repeat 0%Z (Nat.min m (length l0))).
    { intros m l0; revert m. induction l0 as [|x l0 IH]; intros m Hf.
      - rewrite firstn_nil, Nat.min_0_r. reflexivity.
      - inversion Hf; subst. destruct m; cbn; [reflexivity|]. f_equal. apply IH. assumption. }
    apply Hrep. exact Hall.
Qed.

Ltac act_solve := cbn [eall]; repeat split; intros; cbv beta;
   repeat match goal with
          | |- context [let (_, _) := ?x in _] => is_var x; destruct x
          | |- context [if ?b then _ else _] => destruct b
          end; cbn [snd fst]; auto with actdb.
