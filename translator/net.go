// Network backend (C03): for every function of the module that takes or returns channels and whose body is a composition of
// helper calls, emit a second definition "<name>_net" that builds, in the builder monad of coq/Kahn/NetPrelude.v, the
// pipeline the Go function builds: one node per goroutine of a channel helper, one channel per make(chan ...), with the
// capacity rule of the Go code.  Values and the functions applied to them are erased (the helpers never branch on a value);
// integers (periods, counts) and configuration records are kept and translated by the ordinary expression translator.
// Functions with goroutine literals of their own get a hand-written shape from translator/netshapes (hash-checked like the
// overrides); calls through an interface (trend.Ma) are represented by their lag (IdlePeriod).  A function the backend cannot
// handle is reported in the translator report (net_failed) and simply has no network.
package main

import (
	"fmt"
	"go/ast"
	"go/token"
	"go/types"
	"os"
	"path/filepath"
	"sort"
	"strings"
)

type netFunc struct {
	name string // coq name without _net
	pi   *pkgInfo
	fd   *ast.FuncDecl
	obj  *types.Func
}

type netGen struct {
	t      *translator
	byObj  map[*types.Func]*netFunc
	text   map[string]string // name -> definition ("" while in progress)
	failed map[string]string
	order  []string
	shapes []overrideInfo
	tmp    int
}

var netPrimitives = map[string]string{
	"helper.Map": "map", "helper.Apply": "map", "helper.MapWithPrevious": "map", "helper.Count": "map",
	"helper.Operate": "operate", "helper.Operate3": "operate3", "helper.Duplicate": "duplicate",
	"helper.Skip": "skip", "helper.Shift": "shift", "helper.First": "first", "helper.Head": "head",
	"helper.Buffered": "buffered", "helper.Drain": "drain",
}

func isChanT(t types.Type) bool { _, ok := t.Underlying().(*types.Chan); return ok }
func isChanSlice(t types.Type) bool {
	s, ok := t.Underlying().(*types.Slice)
	return ok && isChanT(s.Elem())
}
func chanLike(t types.Type) bool {
	if isChanT(t) || isChanSlice(t) {
		return true
	}
	if tu, ok := t.(*types.Tuple); ok && tu.Len() > 0 {
		for i := 0; i < tu.Len(); i++ {
			if !chanLike(tu.At(i).Type()) {
				return false
			}
		}
		return true
	}
	return false
}
func isIntT(t types.Type) bool {
	b, ok := t.Underlying().(*types.Basic)
	return ok && b.Info()&types.IsInteger != 0
}
func isConfigT(t types.Type) bool {
	n := namedOf(t)
	if n == nil {
		return false
	}
	switch n.Underlying().(type) {
	case *types.Struct, *types.Interface:
		// configuration records of the indicator / strategy / asset packages; helper.Ring, helper.Bst and the like are run-time state
		return n.Obj().Pkg() != nil && strings.HasPrefix(n.Obj().Pkg().Path(), modPath) && !strings.HasSuffix(n.Obj().Pkg().Path(), "/helper")
	}
	return false
}

func netTypeOf(t types.Type) string {
	switch {
	case isChanT(t):
		return "nat"
	case isChanSlice(t):
		return "(list nat)"
	}
	if tu, ok := t.(*types.Tuple); ok {
		parts := make([]string, tu.Len())
		for i := range parts {
			parts[i] = netTypeOf(tu.At(i).Type())
		}
		return "(" + strings.Join(parts, " * ") + ")"
	}
	return "unit"
}

func (t *translator) emitNets() (defs string, names []string, failed []failure, shapes []overrideInfo) {
	g := &netGen{t: t, byObj: map[*types.Func]*netFunc{}, text: map[string]string{}, failed: map[string]string{}}
	for _, suf := range pkgOrder {
		pi := t.pkgs[modPath+"/"+suf]
		for _, f := range pi.files {
			for _, d := range f.Decls {
				fd, ok := d.(*ast.FuncDecl)
				if !ok || fd.Body == nil {
					continue
				}
				obj, _ := pi.info.Defs[fd.Name].(*types.Func)
				if obj == nil {
					continue
				}
				g.byObj[obj] = &netFunc{name: funcName(pi, fd), pi: pi, fd: fd, obj: obj}
			}
		}
	}
	// roots: Compute of every type of the indicator and strategy packages
	var roots []*netFunc
	for _, nf := range g.byObj {
		if nf.fd.Recv != nil && nf.fd.Name.Name == "Compute" && instancePackages[nf.pi.suffix] {
			roots = append(roots, nf)
		}
	}
	sort.Slice(roots, func(i, j int) bool { return roots[i].name < roots[j].name })
	for _, nf := range roots {
		g.need(nf)
	}
	var b strings.Builder
	for _, n := range g.order {
		b.WriteString(g.text[n])
		b.WriteString("\n")
		names = append(names, n)
	}
	// one closed description per Compute: producers of given lengths and capacity in front, a reader behind every output.
	// The witness argument only serves to determine the implicit type parameters at the call site.
	for _, nf := range roots {
		if _, ok := g.text[nf.name]; !ok {
			continue
		}
		sig := nf.obj.Type().(*types.Signature)
		fx := &fnCtx{t: t, pi: nf.pi, deps: map[string]bool{}, name: nf.name}
		rt, err := fx.coqTypeE(sig.Recv().Type())
		if err != nil {
			continue
		}
		witness := "list (expr I T)"
		if strings.HasPrefix(nf.pi.suffix, "strategy") {
			witness = "expr I Z"
		}
		args := ""
		for i := 0; i < sig.Params().Len(); i++ {
			args += fmt.Sprintf(" (nth %d ins_ 0%%nat)", i)
		}
		outs := make([]string, sig.Results().Len())
		for i := range outs {
			outs[i] = fmt.Sprintf("o%d_", i)
		}
		pat := outs[0]
		if len(outs) > 1 {
			pat = "'(" + strings.Join(outs, ", ") + ")"
		}
		b.WriteString(fmt.Sprintf("Definition %s_desc (c_ : %s) (w_ : %s) (kin_ : nat) (lens_ : list nat) : desc :=\n  desc_of kin_ lens_ (fun ins_ => bind (%s_net c_%s) (fun %s => ret [%s])).\n\n",
			nf.name, rt, witness, nf.name, args, pat, strings.Join(outs, "; ")))
	}
	keys := make([]string, 0, len(g.failed))
	for k := range g.failed {
		keys = append(keys, k)
	}
	sort.Strings(keys)
	for _, k := range keys {
		failed = append(failed, failure{Key: k, Reason: g.failed[k]})
	}
	return b.String(), names, failed, g.shapes
}

// need makes sure <name>_net exists; false when it cannot be produced.
func (g *netGen) need(nf *netFunc) bool {
	if txt, ok := g.text[nf.name]; ok {
		return txt != "" || true // in progress counts as available (no recursion in the subset)
	}
	if _, bad := g.failed[nf.name]; bad {
		return false
	}
	g.text[nf.name] = ""
	txt, err := g.translate(nf)
	if err != nil {
		delete(g.text, nf.name)
		g.failed[nf.name] = err.Error()
		return false
	}
	g.text[nf.name] = txt
	g.order = append(g.order, nf.name)
	return true
}

type netErr struct{ msg string }

func (g *netGen) failf(n ast.Node, format string, args ...any) {
	pos := g.t.fset.Position(n.Pos())
	panic(netErr{fmt.Sprintf("%s:%d: ", filepath.Base(pos.Filename), pos.Line) + fmt.Sprintf(format, args...)})
}

type netCtx struct {
	g  *netGen
	nf *netFunc
	fx *fnCtx
}

func (g *netGen) translate(nf *netFunc) (text string, err error) {
	defer func() {
		if r := recover(); r != nil {
			switch e := r.(type) {
			case netErr:
				err = fmt.Errorf("%s", e.msg)
			case trErr:
				err = fmt.Errorf("%s", e.msg)
			default:
				panic(r)
			}
		}
	}()
	sig := nf.obj.Type().(*types.Signature)
	fx := &fnCtx{t: g.t, pi: nf.pi, deps: map[string]bool{}, name: nf.name + "_net"}
	fx.curSig = sig
	c := &netCtx{g: g, nf: nf, fx: fx}
	var params []string
	if nf.fd.Recv != nil {
		r := nf.fd.Recv.List[0]
		nm := "self_"
		if len(r.Names) == 1 && r.Names[0].Name != "_" {
			nm = mangle(r.Names[0].Name)
		}
		params = append(params, fmt.Sprintf("(%s : %s)", nm, fx.coqType(sig.Recv().Type())))
	}
	for i := 0; i < sig.Params().Len(); i++ {
		p := sig.Params().At(i)
		nm := mangle(p.Name())
		if nm == "" || nm == "_" {
			nm = fmt.Sprintf("arg%d_", i)
		}
		switch {
		case isChanT(p.Type()):
			params = append(params, fmt.Sprintf("(%s : nat)", nm))
		case isChanSlice(p.Type()):
			params = append(params, fmt.Sprintf("(%s : list nat)", nm))
		case isIntT(p.Type()):
			params = append(params, fmt.Sprintf("(%s : Z)", nm))
		case isConfigT(p.Type()):
			params = append(params, fmt.Sprintf("(%s : %s)", nm, fx.coqType(p.Type())))
		}
	}
	var res types.Type = sig.Results()
	if sig.Results().Len() == 1 {
		res = sig.Results().At(0).Type()
	}
	if !chanLike(res) {
		g.failf(nf.fd, "result is not made of channels")
	}
	// hand-written shape?
	if g.t.ovDir != "" {
		p := filepath.Join(filepath.Dir(g.t.ovDir), "netshapes", nf.name+"_net.v")
		if data, rerr := os.ReadFile(p); rerr == nil {
			txt := string(data)
			stored := ""
			for _, line := range strings.Split(txt, "\n") {
				line = strings.TrimSpace(line)
				if strings.HasPrefix(line, "(* go-sha256:") {
					stored = strings.TrimSpace(strings.TrimSuffix(strings.TrimPrefix(line, "(* go-sha256:"), "*)"))
				}
				if strings.HasPrefix(line, "(* deps:") {
					for _, d := range strings.Fields(strings.TrimSuffix(strings.TrimPrefix(line, "(* deps:"), "*)")) {
						var dep *netFunc
						for _, cand := range g.byObj {
							if cand.name+"_net" == d {
								dep = cand
							}
						}
						if dep == nil || !g.need(dep) {
							g.failf(nf.fd, "shape depends on %s, which has no network", d)
						}
					}
				}
			}
			h := g.t.hashFunc(nf.fd)
			g.shapes = append(g.shapes, overrideInfo{Key: nf.name + "_net", Hash: h, Stored: stored, Stale: stored != h})
			return "(* " + nf.pi.suffix + "." + nf.fd.Name.Name + " [network shape, hand-written] *)\n" + strings.TrimRight(txt, "\n") + "\n", nil
		}
	}
	for _, st := range nf.fd.Body.List {
		if hasGoLiteral(st) {
			g.failf(st, "goroutine literal in the body (needs a hand-written shape in translator/netshapes)")
		}
	}
	body := c.block(nf.fd.Body.List)
	return fmt.Sprintf("(* %s.%s [network] *)\nDefinition %s_net %s : M %s :=\n  %s.\n", nf.pi.suffix, nf.fd.Name.Name, nf.name,
		strings.Join(params, " "), netTypeOf(res), body), nil
}

func hasGoLiteral(n ast.Node) bool {
	found := false
	ast.Inspect(n, func(x ast.Node) bool {
		if g, ok := x.(*ast.GoStmt); ok {
			if _, lit := g.Call.Fun.(*ast.FuncLit); lit {
				found = true
			}
		}
		return !found
	})
	return found
}

func (c *netCtx) typeOf(e ast.Expr) types.Type {
	if tv, ok := c.nf.pi.info.Types[e]; ok {
		return tv.Type
	}
	if id, ok := e.(*ast.Ident); ok {
		if o := c.nf.pi.info.Uses[id]; o != nil {
			return o.Type()
		}
		if o := c.nf.pi.info.Defs[id]; o != nil {
			return o.Type()
		}
	}
	c.g.failf(e, "no type for expression")
	return nil
}

func (c *netCtx) fresh() string {
	c.g.tmp++
	return fmt.Sprintf("t%d_", c.g.tmp)
}

func (c *netCtx) block(stmts []ast.Stmt) string {
	if len(stmts) == 0 {
		c.g.failf(c.nf.fd, "function falls off its end")
	}
	st, rest := stmts[0], stmts[1:]
	cont := func() string { return c.block(rest) }
	switch s := st.(type) {
	case *ast.ReturnStmt:
		return c.ret(s)
	case *ast.DeclStmt:
		return cont()
	case *ast.GoStmt:
		return c.callStmt(s.Call, cont)
	case *ast.ExprStmt:
		if call, ok := s.X.(*ast.CallExpr); ok {
			return c.callStmt(call, cont)
		}
		c.g.failf(st, "unsupported expression statement")
	case *ast.IfStmt:
		// if <integer condition> { x = <channel expression> }   (helper.SyncPeriod)
		if s.Init == nil && s.Else == nil && len(s.Body.List) == 1 {
			if as, ok := s.Body.List[0].(*ast.AssignStmt); ok && as.Tok == token.ASSIGN && len(as.Lhs) == 1 {
				if id, ok := as.Lhs[0].(*ast.Ident); ok && isChanT(c.typeOf(as.Rhs[0])) {
					nm := mangle(id.Name)
					return fmt.Sprintf("bind (if %s then %s else ret %s) (fun %s =>\n  %s)", c.fx.expr(s.Cond), c.chanM(as.Rhs[0]), nm, nm, cont())
				}
			}
		}
		c.g.failf(st, "unsupported conditional")
	case *ast.AssignStmt:
		return c.assign(s, cont)
	}
	c.g.failf(st, "unsupported statement %T", st)
	return ""
}

func (c *netCtx) callStmt(call *ast.CallExpr, cont func() string) string {
	if q := c.qualified(call); q == "helper.Drain" {
		return fmt.Sprintf("bind %s (fun %s => bind (n_drain %s) (fun _ =>\n  %s))", c.chanM(call.Args[0]), "d_", "d_", cont())
	}
	c.g.failf(call, "unsupported call statement")
	return ""
}

func (c *netCtx) assign(st *ast.AssignStmt, cont func() string) string {
	if st.Tok != token.DEFINE && st.Tok != token.ASSIGN {
		c.g.failf(st, "unsupported compound assignment")
	}
	if len(st.Rhs) == 1 && len(st.Lhs) > 1 { // a, b := f(...)
		if !chanLike(c.typeOf(st.Rhs[0])) {
			// integers (period1, period2 := t.calculatePeriods())
			tu, ok := c.typeOf(st.Rhs[0]).(*types.Tuple)
			allInt := ok
			for i := 0; ok && i < tu.Len(); i++ {
				allInt = allInt && isIntT(tu.At(i).Type())
			}
			if !allInt {
				return cont()
			}
			ns := make([]string, len(st.Lhs))
			for i, l := range st.Lhs {
				id, ok := l.(*ast.Ident)
				if !ok {
					c.g.failf(st, "multi-value assignment to non-identifier")
				}
				ns[i] = mangle(id.Name)
			}
			return fmt.Sprintf("let '(%s) := %s in\n  %s", strings.Join(ns, ", "), c.fx.expr(st.Rhs[0]), cont())
		}
		names := make([]string, len(st.Lhs))
		for i, l := range st.Lhs {
			id, ok := l.(*ast.Ident)
			if !ok {
				c.g.failf(st, "multi-value assignment to non-identifier")
			}
			names[i] = mangle(id.Name)
		}
		return fmt.Sprintf("bind %s (fun '(%s) =>\n  %s)", c.chanM(st.Rhs[0]), strings.Join(names, ", "), cont())
	}
	if len(st.Rhs) == 1 && len(st.Lhs) > 1 && false {
	}
	if len(st.Lhs) != 1 || len(st.Rhs) != 1 {
		// parallel assignment: only of non-channel things we can ignore, or fail
		for _, r := range st.Rhs {
			if chanLike(c.typeOf(r)) {
				c.g.failf(st, "parallel assignment of channels")
			}
		}
		return cont()
	}
	lhs, rhs := st.Lhs[0], st.Rhs[0]
	rt := c.typeOf(rhs)
	switch l := lhs.(type) {
	case *ast.Ident:
		nm := mangle(l.Name)
		switch {
		case chanLike(rt):
			return fmt.Sprintf("bind %s (fun %s =>\n  %s)", c.chanM(rhs), nm, cont())
		case isIntT(rt) || isConfigT(rt):
			return fmt.Sprintf("let %s := %s in\n  %s", nm, c.fx.expr(rhs), cont())
		}
		return cont() // numbers, closures, rings: erased
	case *ast.IndexExpr:
		if isChanT(rt) {
			xs, ok := l.X.(*ast.Ident)
			if !ok {
				c.g.failf(st, "unsupported indexed assignment")
			}
			t := c.fresh()
			return fmt.Sprintf("bind %s (fun %s => let %s := set_nth_nat (zn %s) %s %s in\n  %s)", c.chanM(rhs), t, mangle(xs.Name), c.fx.expr(l.Index), t, mangle(xs.Name), cont())
		}
		return cont()
	case *ast.SelectorExpr:
		lt := c.typeOf(lhs)
		if isIntT(lt) || isConfigT(lt) {
			root, upd := c.fx.fieldUpdate(l, c.fx.expr(rhs))
			return fmt.Sprintf("let %s := %s in\n  %s", root, upd, cont())
		}
		return cont()
	}
	c.g.failf(st, "unsupported assignment target")
	return ""
}

func (c *netCtx) ret(s *ast.ReturnStmt) string {
	if len(s.Results) == 1 {
		return c.chanM(s.Results[0])
	}
	names := make([]string, len(s.Results))
	out := ""
	for i, r := range s.Results {
		names[i] = c.fresh()
		out += fmt.Sprintf("bind %s (fun %s => ", c.chanM(r), names[i])
	}
	return out + "ret (" + strings.Join(names, ", ") + ")" + strings.Repeat(")", len(s.Results))
}

// qualified name of the called function: "helper.Map", "trend.(Sma).Compute", ...
func (c *netCtx) callee(call *ast.CallExpr) (*types.Func, ast.Expr) {
	fun := call.Fun
	for {
		switch f := fun.(type) {
		case *ast.IndexExpr:
			fun = f.X
			continue
		case *ast.IndexListExpr:
			fun = f.X
			continue
		case *ast.ParenExpr:
			fun = f.X
			continue
		}
		break
	}
	switch f := fun.(type) {
	case *ast.Ident:
		if o, ok := c.nf.pi.info.Uses[f].(*types.Func); ok {
			return o.Origin(), nil
		}
	case *ast.SelectorExpr:
		if sel, ok := c.nf.pi.info.Selections[f]; ok && sel.Kind() == types.MethodVal {
			if o, ok := sel.Obj().(*types.Func); ok {
				return o.Origin(), f.X
			}
		}
		if o, ok := c.nf.pi.info.Uses[f.Sel].(*types.Func); ok {
			return o.Origin(), nil
		}
	}
	return nil, nil
}

func (c *netCtx) qualified(call *ast.CallExpr) string {
	o, _ := c.callee(call)
	if o == nil || o.Pkg() == nil {
		return ""
	}
	return strings.TrimPrefix(o.Pkg().Path(), modPath+"/") + "." + o.Name()
}

// chanM translates an expression of channel type (or slice / tuple of channels) to a builder action.
func (c *netCtx) chanM(e ast.Expr) string {
	switch x := e.(type) {
	case *ast.ParenExpr:
		return c.chanM(x.X)
	case *ast.Ident:
		return "(ret " + mangle(x.Name) + ")"
	case *ast.IndexExpr:
		if id, ok := x.X.(*ast.Ident); ok && isChanSlice(c.typeOf(x.X)) {
			return fmt.Sprintf("(ret (chan_at %s %s))", mangle(id.Name), c.fx.expr(x.Index))
		}
	case *ast.CallExpr:
		return c.call(x)
	}
	c.g.failf(e, "unsupported channel expression %T", e)
	return ""
}

func (c *netCtx) call(call *ast.CallExpr) string {
	obj, recv := c.callee(call)
	if obj == nil {
		c.g.failf(call, "call of an unknown function")
	}
	q := c.qualified(call)
	// bind every channel argument first
	var binds []string
	chanArg := func(a ast.Expr) string {
		t := c.fresh()
		binds = append(binds, fmt.Sprintf("bind %s (fun %s => ", c.chanM(a), t))
		return t
	}
	wrap := func(core string) string {
		return "(" + strings.Join(binds, "") + core + strings.Repeat(")", len(binds)) + ")"
	}
	if prim, ok := netPrimitives[q]; ok {
		var chans []string
		var ints []string
		for _, a := range call.Args {
			at := c.typeOf(a)
			switch {
			case isChanT(at):
				chans = append(chans, chanArg(a))
			case isIntT(at):
				ints = append(ints, c.fx.expr(a))
			}
		}
		switch prim {
		case "map":
			if len(chans) != 1 {
				c.g.failf(call, "%s expects one channel", q)
			}
			return wrap("n_map " + chans[0])
		case "operate":
			return wrap("n_operate " + strings.Join(chans, " "))
		case "operate3":
			return wrap("n_operate3 " + strings.Join(chans, " "))
		case "duplicate", "skip", "shift", "first", "head", "buffered":
			if len(chans) != 1 || len(ints) < 1 {
				c.g.failf(call, "%s: unexpected arguments", q)
			}
			return wrap(fmt.Sprintf("n_%s %s %s", prim, chans[0], ints[0]))
		}
		c.g.failf(call, "primitive %s in expression position", q)
	}
	sig := obj.Type().(*types.Signature)
	// a method of an interface value (trend.Ma): represented by its lag
	if recv != nil {
		if _, isIface := c.typeOf(recv).Underlying().(*types.Interface); isIface {
			if obj.Name() == "Compute" && len(call.Args) == 1 && isChanT(c.typeOf(call.Args[0])) {
				n := namedOf(c.typeOf(recv))
				if n != nil && n.Obj().Name() == "Ma" {
					a := chanArg(call.Args[0])
					return wrap(fmt.Sprintf("n_lagging %s (trend_Ma_IdlePeriod %s)", a, c.fx.expr(recv)))
				}
			}
			c.g.failf(call, "call through an interface")
		}
	}
	nf := c.g.byObj[obj]
	if nf == nil {
		c.g.failf(call, "call of %s, which is outside the module", q)
	}
	if !c.g.need(nf) {
		c.g.failf(call, "no network for %s (%s)", nf.name, c.g.failed[nf.name])
	}
	var args []string
	if recv != nil {
		args = append(args, c.fx.expr(recv))
	}
	for i, a := range call.Args {
		var pt types.Type
		if i < sig.Params().Len() {
			pt = sig.Params().At(i).Type()
		} else {
			pt = sig.Params().At(sig.Params().Len() - 1).Type()
		}
		switch {
		case isChanT(pt):
			args = append(args, chanArg(a))
		case isChanSlice(pt):
			args = append(args, chanArg(a))
		case isIntT(pt), isConfigT(pt):
			args = append(args, c.fx.expr(a))
		}
	}
	return wrap(nf.name + "_net " + strings.Join(args, " "))
}
