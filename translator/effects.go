// Effects analysis for C09 ("an indicator or strategy value holds configuration only").
//
// For every method of every named type of the indicator and strategy packages the analysis decides whether a call can
// write memory reachable from its receiver, or a package-level variable:
//   - an assignment, ++/--, or compound assignment whose target is rooted at the receiver (r.F = .., r.F.G[i] = .., *r = ..),
//     at a local variable that was bound to a pointer, map or slice reached from the receiver, or at a package-level variable;
//   - a call of a method that (transitively) writes its own receiver, made on an expression rooted at the receiver
//     (r.ring.Put(x): Ring.Put writes its receiver, so r is written through), in any package of the module.
// Function literals inside the method body (the closures handed to helper.Map, helper.Operate, go func ...) are part of the body.
// The result is emitted as coq/Gen/Effects.v (a list of offending methods, empty on the pinned tree) and in the report.
// It is a syntactic over-approximation of "writes through the receiver" for the code shapes of this repository; it does not
// follow pointers passed as function arguments or stored in channels (recorded in the trusted base).
package main

import (
	"fmt"
	"go/ast"
	"go/token"
	"go/types"
	"os"
	"path/filepath"
	"sort"
	"strings"
)

type effect struct {
	Method string `json:"method"`
	Reason string `json:"reason"`
}

type methodInfo struct {
	key    string // pkgsuffix.Type.Method
	pi     *pkgInfo
	fd     *ast.FuncDecl
	recv   *types.Var
	fn     *types.Func
	writes string // non-empty: why
}

// instancePackages: the packages whose types are "instances" in the sense of C09
var instancePackages = map[string]bool{"trend": true, "volume": true, "momentum": true, "volatility": true, "strategy": true,
	"strategy/trend": true, "strategy/momentum": true, "strategy/volatility": true, "strategy/volume": true,
	"strategy/compound": true, "strategy/decorator": true}

func (t *translator) effects() (offending []effect, analysed int) {
	methods := map[*types.Func]*methodInfo{}
	var all []*methodInfo
	for _, suf := range pkgOrder {
		pi := t.pkgs[modPath+"/"+suf]
		for _, f := range pi.files {
			for _, d := range f.Decls {
				fd, ok := d.(*ast.FuncDecl)
				if !ok || fd.Recv == nil || fd.Body == nil || len(fd.Recv.List) == 0 {
					continue
				}
				obj, _ := pi.info.Defs[fd.Name].(*types.Func)
				if obj == nil {
					continue
				}
				var recv *types.Var
				if len(fd.Recv.List[0].Names) > 0 {
					recv, _ = pi.info.Defs[fd.Recv.List[0].Names[0]].(*types.Var)
				}
				tn := recvTypeName(fd.Recv.List[0].Type)
				mi := &methodInfo{key: suf + "." + tn + "." + fd.Name.Name, pi: pi, fd: fd, recv: recv, fn: obj}
				methods[obj] = mi
				all = append(all, mi)
			}
		}
	}
	// direct writes
	for _, mi := range all {
		mi.writes = t.directWrite(mi)
	}
	// calls on receiver-rooted expressions of methods that write their receiver: fixpoint
	for changed := true; changed; {
		changed = false
		for _, mi := range all {
			if mi.writes != "" || mi.recv == nil {
				continue
			}
			tainted := t.taintedLocals(mi)
			ast.Inspect(mi.fd.Body, func(n ast.Node) bool {
				call, ok := n.(*ast.CallExpr)
				if !ok || mi.writes != "" {
					return true
				}
				sel, ok := call.Fun.(*ast.SelectorExpr)
				if !ok {
					return true
				}
				s, ok := mi.pi.info.Selections[sel]
				if !ok || s.Kind() != types.MethodVal {
					return true
				}
				callee, _ := s.Obj().(*types.Func)
				if callee == nil {
					return true
				}
				cm := methods[callee.Origin()]
				if cm == nil || cm.writes == "" {
					return true
				}
				if root := rootIdent(sel.X); root != nil {
					if o := mi.pi.info.Uses[root]; o != nil && (o == mi.recv || tainted[o]) {
						mi.writes = fmt.Sprintf("calls %s on %s, which writes its receiver (%s)", cm.key, exprString(sel.X), cm.writes)
						changed = true
					}
				}
				return true
			})
		}
	}
	for _, mi := range all {
		if !instancePackages[mi.pi.suffix] {
			continue
		}
		analysed++
		if mi.writes != "" {
			offending = append(offending, effect{Method: mi.key, Reason: mi.writes})
		}
	}
	sort.Slice(offending, func(i, j int) bool { return offending[i].Method < offending[j].Method })
	return offending, analysed
}

func rootIdent(e ast.Expr) *ast.Ident {
	for {
		switch x := e.(type) {
		case *ast.Ident:
			return x
		case *ast.SelectorExpr:
			e = x.X
		case *ast.IndexExpr:
			e = x.X
		case *ast.StarExpr:
			e = x.X
		case *ast.ParenExpr:
			e = x.X
		case *ast.SliceExpr:
			e = x.X
		default:
			return nil
		}
	}
}

func exprString(e ast.Expr) string {
	switch x := e.(type) {
	case *ast.Ident:
		return x.Name
	case *ast.SelectorExpr:
		return exprString(x.X) + "." + x.Sel.Name
	case *ast.IndexExpr:
		return exprString(x.X) + "[..]"
	case *ast.StarExpr:
		return "*" + exprString(x.X)
	case *ast.ParenExpr:
		return exprString(x.X)
	}
	return "expr"
}

func refLike(ty types.Type) bool {
	switch ty.Underlying().(type) {
	case *types.Pointer, *types.Map, *types.Slice:
		return true
	}
	return false
}

// taintedLocals: local variables bound (:= or =) to a pointer, map or slice reached from the receiver.
func (t *translator) taintedLocals(mi *methodInfo) map[types.Object]bool {
	tainted := map[types.Object]bool{}
	if mi.recv == nil {
		return tainted
	}
	for pass := 0; pass < 3; pass++ {
		ast.Inspect(mi.fd.Body, func(n ast.Node) bool {
			as, ok := n.(*ast.AssignStmt)
			if !ok || len(as.Lhs) != len(as.Rhs) {
				return true
			}
			for i, l := range as.Lhs {
				id, ok := l.(*ast.Ident)
				if !ok {
					continue
				}
				r := as.Rhs[i]
				if u, ok := r.(*ast.UnaryExpr); ok && u.Op == token.AND {
					r = u.X
				}
				root := rootIdent(r)
				if root == nil {
					continue
				}
				ro := mi.pi.info.Uses[root]
				if ro == nil || !(ro == mi.recv || tainted[ro]) {
					continue
				}
				if tv, ok := mi.pi.info.Types[as.Rhs[i]]; ok && refLike(tv.Type) {
					if o := mi.pi.info.Defs[id]; o != nil {
						tainted[o] = true
					} else if o := mi.pi.info.Uses[id]; o != nil {
						tainted[o] = true
					}
				}
			}
			return true
		})
	}
	return tainted
}

func (t *translator) directWrite(mi *methodInfo) string {
	tainted := t.taintedLocals(mi)
	why := ""
	check := func(target ast.Expr, pos token.Pos) {
		if why != "" {
			return
		}
		if _, isIdent := target.(*ast.Ident); isIdent {
			// rebinding a local or the receiver variable itself touches no shared memory; a package-level variable does
			if o := mi.pi.info.Uses[target.(*ast.Ident)]; o != nil {
				if v, ok := o.(*types.Var); ok && v.Parent() == mi.pi.pkg.Scope() {
					why = fmt.Sprintf("assigns the package-level variable %s (line %d)", v.Name(), t.fset.Position(pos).Line)
				}
			}
			return
		}
		root := rootIdent(target)
		if root == nil {
			return
		}
		o := mi.pi.info.Uses[root]
		if o == nil {
			return
		}
		if v, ok := o.(*types.Var); ok && v.Parent() == mi.pi.pkg.Scope() {
			why = fmt.Sprintf("writes %s of a package-level variable (line %d)", exprString(target), t.fset.Position(pos).Line)
			return
		}
		if mi.recv != nil && (o == mi.recv || tainted[o]) {
			// a value receiver is a copy: writing its own fields is local, unless the path crosses a pointer, map or slice
			if _, ptr := mi.recv.Type().(*types.Pointer); !ptr && o == mi.recv && !t.crossesRef(mi, target) {
				return
			}
			why = fmt.Sprintf("assigns %s (line %d)", exprString(target), t.fset.Position(pos).Line)
		}
	}
	ast.Inspect(mi.fd.Body, func(n ast.Node) bool {
		switch st := n.(type) {
		case *ast.AssignStmt:
			if st.Tok == token.DEFINE {
				return true
			}
			for _, l := range st.Lhs {
				check(l, st.Pos())
			}
		case *ast.IncDecStmt:
			check(st.X, st.Pos())
		}
		return true
	})
	return why
}

// crossesRef: does the path from the root identifier to the assigned location pass through a pointer, map or slice value?
func (t *translator) crossesRef(mi *methodInfo, target ast.Expr) bool {
	e := target
	for {
		var inner ast.Expr
		switch x := e.(type) {
		case *ast.SelectorExpr:
			inner = x.X
		case *ast.IndexExpr:
			inner = x.X
		case *ast.StarExpr:
			return true
		case *ast.ParenExpr:
			inner = x.X
		default:
			return false
		}
		if tv, ok := mi.pi.info.Types[inner]; ok && refLike(tv.Type) {
			if _, isRoot := inner.(*ast.Ident); !isRoot {
				return true
			}
		}
		e = inner
	}
}

func (t *translator) emitEffects(outDir string) ([]effect, int, error) {
	off, n := t.effects()
	var b strings.Builder
	b.WriteString("(* GENERATED by verif/translator (effects.go) from the Go sources of /repo on every run. DO NOT EDIT.\n")
	b.WriteString("   The methods of the indicator and strategy packages that can write memory reachable from their receiver, or a\n")
	b.WriteString("   package-level variable: (method, reason).  Props/C09.v proves this list empty. *)\n")
	b.WriteString("From Coq Require Import List String.\nImport ListNotations.\nOpen Scope string_scope.\n\n")
	b.WriteString(fmt.Sprintf("Definition methods_analysed : nat := %d.\n\n", n))
	b.WriteString("Definition receiver_writes : list (string * string) :=\n  [")
	for i, e := range off {
		if i > 0 {
			b.WriteString(";\n   ")
		}
		b.WriteString(fmt.Sprintf("(%q, %q)", e.Method, strings.ReplaceAll(e.Reason, "\"", "'")))
	}
	b.WriteString("].\n")
	p := filepath.Join(outDir, "Effects.v")
	old, _ := os.ReadFile(p)
	if string(old) != b.String() {
		if err := os.WriteFile(p, []byte(b.String()), 0o644); err != nil {
			return nil, 0, err
		}
	}
	return off, n, nil
}
