(* go-sha256: 6949ec91447043ba1cdf55c4feed55fcee268ab54fe92b168f239bfd0b123823 *)
(* deps: trend_Wma trend_Wma_IdlePeriod *)
Definition trend_Wma_Compute (w : trend_Wma) (values : (expr I T)) : (expr I T) :=
  let wmas := EMapSt (@nil T) (wma_step (trend_Wma_Period w)) values in
  let wmas := (ESkip (trend_Wma_IdlePeriod w) wmas) in
  wmas.
