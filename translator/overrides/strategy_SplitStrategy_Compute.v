(* go-sha256: 504577b7bbcb911e1a8384c9c6a9bea95fda16e446334209bf3dd3b7d54621cb *)
(* deps: strategy_SplitStrategy strategy_Strategy *)
Definition strategy_SplitStrategy_Compute (s : strategy_SplitStrategy) (snapshots : (expr I asset_Snapshot)) : (expr I Z) :=
  let buyActions := strategy_Strategy_Compute (strategy_SplitStrategy_BuyStrategy s) snapshots in
  let sellActions := strategy_Strategy_Compute (strategy_SplitStrategy_SellStrategy s) snapshots in
  EOp2 (fun buyAction sellAction =>
          if andb (Z.eqb buyAction 1%Z) (zneb sellAction (-1)%Z) then 1%Z
          else if andb (Z.eqb sellAction (-1)%Z) (zneb buyAction 1%Z) then (-1)%Z else 0%Z)
       buyActions sellActions.
