(* go-sha256: 00170069b46959b79ebb8b2d4a1ecec5d610579cf1c48a0123f6c228decd7e1d *)
(* deps: trend_Hma trend_NewWmaWith *)
Definition trend_NewHmaWithPeriod (period : Z) : trend_Hma :=
  (mk_trend_Hma (trend_NewWmaWith (round_half period)) (trend_NewWmaWith period) (trend_NewWmaWith (round_sqrt period))).
