(* go-sha256: 34cd69f67a2181278eec9da2a687a39970c562e5c3dd144e12ebea22b03c777b *)
(* deps: strategy_momentum_TripleRsiStrategy asset_SnapshotsAsClosings momentum_Rsi_Compute trend_Sma_Compute trend_Sma_IdlePeriod momentum_Rsi_IdlePeriod *)
Definition strategy_momentum_TripleRsiStrategy_Compute (t : strategy_momentum_TripleRsiStrategy) (snapshots : (expr I asset_Snapshot)) : (expr I Z) :=
  let closingsSplice_0 := (asset_SnapshotsAsClosings snapshots) in
  let closingsSplice_1 := closingsSplice_0 in
  let closingsSplice_2 := closingsSplice_0 in
  let rsis := (momentum_Rsi_Compute (strategy_momentum_TripleRsiStrategy_Rsi t) closingsSplice_0) in
  let smas := (trend_Sma_Compute (strategy_momentum_TripleRsiStrategy_Sma t) closingsSplice_1) in
  let rsis := (ESkip (Z.sub (trend_Sma_IdlePeriod (strategy_momentum_TripleRsiStrategy_Sma t)) (momentum_Rsi_IdlePeriod (strategy_momentum_TripleRsiStrategy_Rsi t))) rsis) in
  let closingsSplice_2 := (ESkip (trend_Sma_IdlePeriod (strategy_momentum_TripleRsiStrategy_Sma t)) closingsSplice_2) in
  let downDays := strategy_momentum_TripleRsiStrategy_DownDays t in
  let actions := EOp3St (@nil T) (fun memory rsi sma closing =>
      let memory := ring_push downDays memory rsi in
      (memory,
       if negb (ring_full downDays memory) then 0%Z
       else if ngtb rsi (strategy_momentum_TripleRsiStrategy_SellAt t) then (-1)%Z
       else if ngeb rsi (strategy_momentum_TripleRsiStrategy_BuyAt t) then 0%Z
       else if (fix rising (l : list T) : bool :=
                  match l with
                  | a :: ((b :: _) as l') => if ngtb a b then true else rising l'
                  | _ => false
                  end) memory then 0%Z
       else if ngeb (hd nzero memory) (strategy_momentum_TripleRsiStrategy_BuySignalAt t) then 0%Z
       else if nleb closing sma then 0%Z
       else 1%Z)) rsis smas closingsSplice_2 in
  let actions := (EShift (trend_Sma_IdlePeriod (strategy_momentum_TripleRsiStrategy_Sma t)) 0%Z actions) in
  actions.
