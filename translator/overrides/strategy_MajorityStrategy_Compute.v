(* go-sha256: 1e63a48deb0c6f260a0f196b6d505ed158c380fda0bde2991669a57dc627ea4f *)
(* deps: strategy_MajorityStrategy strategy_ActionSources *)
Definition strategy_MajorityStrategy_Compute (a : strategy_MajorityStrategy) (snapshots : (expr I asset_Snapshot)) : (expr I Z) :=
  let sources := strategy_ActionSources (strategy_MajorityStrategy_Strategies a) snapshots in
  EMap (fun '(buy, hold, sell) =>
          if andb (Z.gtb sell buy) (Z.gtb sell hold) then (-1)%Z
          else if andb (Z.gtb buy sell) (Z.gtb buy hold) then 1%Z else 0%Z)
       (count_actions (EMap (fun _ => (0, 0, 0)%Z) (EHead 0%Z snapshots)) sources).
