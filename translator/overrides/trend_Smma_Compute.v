(* go-sha256: 35b2f071131ccf5b51aedf96a036b982b38987575ebac5e5905032c400ed74bd *)
(* deps: trend_Smma trend_Sma trend_NewSmaWithPeriod trend_Sma_Compute *)
Definition trend_Smma_Compute (s : trend_Smma) (c : (expr I T)) : (expr I T) :=
  let sma := trend_NewSmaWithPeriod (trend_Smma_Period s) in
  ESeeded (trend_Sma_Compute sma (EHead (trend_Smma_Period s) c)) (trend_Smma_Period s)
          (fun before n => ndiv (nadd (nmul before (nsub (nofZ (trend_Smma_Period s)) (nofZ 1%Z))) n) (nofZ (trend_Smma_Period s))) c.
