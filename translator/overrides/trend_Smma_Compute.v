(* go-sha256: 0a79c0b3ac596ecde52f72e7049c230604ba8a2525a9ee10119e281e09353b7f *)
(* deps: trend_Smma trend_Sma trend_NewSmaWithPeriod trend_Sma_Compute *)
Definition trend_Smma_Compute (s : trend_Smma) (c : (expr I T)) : (expr I T) :=
  let sma := trend_NewSmaWithPeriod (trend_Smma_Period s) in
  ESeeded (trend_Sma_Compute sma (EHead (trend_Smma_Period s) c)) (trend_Smma_Period s)
          (fun before n => ndiv (nadd (nmul before (nsub (nofZ (trend_Smma_Period s)) (nofZ 1%Z))) n) (nofZ (trend_Smma_Period s))) c.
