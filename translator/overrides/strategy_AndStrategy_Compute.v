(* go-sha256: 9f52f562b168a680b50f944aeda34568763ada744745f01260bdaf48640805af *)
(* deps: strategy_AndStrategy strategy_ActionSources *)
Definition strategy_AndStrategy_Compute (a : strategy_AndStrategy) (snapshots : (expr I asset_Snapshot)) : (expr I Z) :=
  let sources := strategy_ActionSources (strategy_AndStrategy_Strategies a) snapshots in
  let and_ := Z.of_nat (List.length (strategy_AndStrategy_Strategies a)) in
  EMap (fun '(buy, hold, sell) => if Z.eqb sell and_ then (-1)%Z else if Z.eqb buy and_ then 1%Z else 0%Z)
       (count_actions (EMap (fun _ => (0, 0, 0)%Z) (EHead 0%Z snapshots)) sources).
