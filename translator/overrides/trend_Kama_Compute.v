(* go-sha256: 89e5b89c23582e92e9888d998d90e33540b6c395463889e1b5fa792f297e0f35 *)
(* deps: trend_Kama helper_Abs helper_Change helper_Divide helper_Pow helper_IncrementBy helper_MultiplyBy trend_NewMovingSumWithPeriod trend_MovingSum_Compute *)
Definition trend_Kama_Compute (k : trend_Kama) (closings : (expr I T)) : (expr I T) :=
  let closingsSplice_0 := closings in
  let closingsSplice_1 := closingsSplice_0 in
  let closingsSplice_2 := closingsSplice_0 in
  let directions := (helper_Abs (helper_Change closingsSplice_0 (trend_Kama_ErPeriod k))) in
  let movingSum := (trend_NewMovingSumWithPeriod (trend_Kama_ErPeriod k)) in
  let volatilitys := (trend_MovingSum_Compute movingSum (helper_Abs (helper_Change closingsSplice_1 1%Z))) in
  let ers := (helper_Divide directions volatilitys) in
  let fastSc := (ndiv (nofZ 2%Z) (nofZ (Z.add (trend_Kama_FastScPeriod k) 1%Z))) in
  let slowSc := (ndiv (nofZ 2%Z) (nofZ (Z.add (trend_Kama_SlowScPeriod k) 1%Z))) in
  let scs := (helper_Pow (helper_IncrementBy (helper_MultiplyBy ers (nsub fastSc slowSc)) slowSc) (nofZ 2%Z)) in
  let closingsSplice_2 := (ESkip (Z.sub (trend_Kama_ErPeriod k) 1%Z) closingsSplice_2) in
  EKamaTail N closingsSplice_2 scs.
