(* go-sha256: 5c7d954fc582b277a80dfcfb35d12317d9d86782e6a66064e898184c31d8f730 *)
(* deps: strategy_Strategy strategy_DenormalizeActions asset_Snapshot *)
Definition strategy_ActionSources (strategies : (list strategy_Strategy)) (snapshots : (expr I asset_Snapshot)) : (list (expr I Z)) :=
  map (fun s => strategy_DenormalizeActions (strategy_Strategy_Compute s snapshots)) strategies.
