(* go-sha256: b9a22e101dd6e276593b56839ec853cae875caf99abb18e8db7e02393107107c *)
(* deps: volatility_MovingStd *)
Definition volatility_MovingStd_Compute (m : volatility_MovingStd) (c : (expr I T)) : (expr I T) :=
  EMovingStd N (volatility_MovingStd_Period m) c.
