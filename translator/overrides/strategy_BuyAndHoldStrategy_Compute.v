(* go-sha256: cd917f1c2243745c5c2044a3b9b91359d0227bf4ef4df1bf227cbfd3fc08150b *)
(* deps: strategy_BuyAndHoldStrategy asset_SnapshotsAsClosings *)
Definition strategy_BuyAndHoldStrategy_Compute (self_ : strategy_BuyAndHoldStrategy) (snapshots : (expr I asset_Snapshot)) : (expr I Z) :=
  EBuyHold 1%Z 0%Z (asset_SnapshotsAsClosings snapshots).
