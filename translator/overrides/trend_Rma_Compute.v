(* go-sha256: b5db5cc5a5bc6c46f91844bfbb80c3e7af49b0ca45737a8f5360b4c50e80939c *)
(* deps: trend_Rma trend_Sma trend_NewSma trend_Sma_Compute *)
Definition trend_Rma_Compute (r : trend_Rma) (c : (expr I T)) : (expr I T) :=
  let sma := trend_NewSma in
  let sma := set_trend_Sma_Period sma (trend_Rma_Period r) in
  ESeeded (trend_Sma_Compute sma (EHead (trend_Rma_Period r) c)) (trend_Rma_Period r)
          (fun before n => ndiv (nadd (nmul before (nofZ (Z.sub (trend_Rma_Period r) 1%Z))) n) (nofZ (trend_Rma_Period r))) c.
