(* go-sha256: da2d168c8ec65950963d9e7dcf0335ed382de027384ca1da8522ee9c8bd1292e *)
(* deps: trend_Rma trend_Sma trend_NewSma trend_Sma_Compute *)
Definition trend_Rma_Compute (r : trend_Rma) (c : (expr I T)) : (expr I T) :=
  let sma := trend_NewSma in
  let sma := set_trend_Sma_Period sma (trend_Rma_Period r) in
  ESeeded (trend_Sma_Compute sma (EHead (trend_Rma_Period r) c)) (trend_Rma_Period r)
          (fun before n => ndiv (nadd (nmul before (nofZ (Z.sub (trend_Rma_Period r) 1%Z))) n) (nofZ (trend_Rma_Period r))) c.
