(* go-sha256: 274a1031c78e0490563fed950c8cdd60a3eba36c491bdfba626805e000dd31fd *)
(* deps: strategy_OrStrategy strategy_ActionSources *)
Definition strategy_OrStrategy_Compute (a : strategy_OrStrategy) (snapshots : (expr I asset_Snapshot)) : (expr I Z) :=
  let sources := strategy_ActionSources (strategy_OrStrategy_Strategies a) snapshots in
  EMap (fun '(buy, hold, sell) => if andb (Z.gtb sell 0%Z) (Z.eqb buy 0%Z) then (-1)%Z else if andb (Z.gtb buy 0%Z) (Z.eqb sell 0%Z) then 1%Z else 0%Z)
       (count_actions (EMap (fun _ => (0, 0, 0)%Z) (EHead 0%Z snapshots)) sources).
