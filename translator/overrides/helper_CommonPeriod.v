(* go-sha256: b53f18820d41b26c1fca51df3e31a5062af064bc42125e9954312cbdaf64758d *)
(* deps: *)
Definition helper_CommonPeriod (periods : (list Z)) : Z :=
  fold_left Z.max (tl periods) (hd 0%Z periods).
