(* go-sha256: 495775e9f1a74695e21d78d2b80fc3648767cf925ed754946f4ec1e98911871a *)
(* deps: trend_Ema trend_Sma trend_NewSma trend_Sma_Compute *)
Definition trend_Ema_Compute (e : trend_Ema) (c : (expr I T)) : (expr I T) :=
  let sma := trend_NewSma in
  let sma := set_trend_Sma_Period sma (trend_Ema_Period e) in
  let multiplier := ndiv (trend_Ema_Smoothing e) (nofZ (Z.add (trend_Ema_Period e) 1%Z)) in
  ESeeded (trend_Sma_Compute sma (EHead (trend_Ema_Period e) c)) (trend_Ema_Period e)
          (fun before n => nadd (nmul (nsub n before) multiplier) before) c.
