(* go-sha256: 6fafd9a3624bc87bbd76abeab1a6ddc5699c50b26431973e5ff12c004a02270d *)
(* deps: trend_Ema trend_Sma trend_NewSma trend_Sma_Compute *)
Definition trend_Ema_Compute (e : trend_Ema) (c : (expr I T)) : (expr I T) :=
  let sma := trend_NewSma in
  let sma := set_trend_Sma_Period sma (trend_Ema_Period e) in
  let multiplier := ndiv (trend_Ema_Smoothing e) (nofZ (Z.add (trend_Ema_Period e) 1%Z)) in
  ESeeded (trend_Sma_Compute sma (EHead (trend_Ema_Period e) c)) (trend_Ema_Period e)
          (fun before n => nadd (nmul (nsub n before) multiplier) before) c.
