package main

import (
	"fmt"
	"go/ast"
	"go/constant"
	"go/token"
	"go/types"
	"math/big"
	"sort"
	"strings"
)

// fnCtx is the state of the translation of one Go function.
type fnCtx struct {
	t    *translator
	pi   *pkgInfo
	deps map[string]bool
	name string

	// slice-valued channel variables (results of helper.Duplicate) expanded into scalars
	slices map[types.Object]int
	// closure state while translating a stateful function literal
	stateVars []types.Object
	inClosure bool
	retTuple  bool
	curSig    *types.Signature
	poly      map[string]bool
	polyOrder []string
}

type trErr struct{ msg string }

func (fx *fnCtx) failf(n ast.Node, format string, args ...any) {
	pos := fx.t.fset.Position(n.Pos())
	panic(trErr{fmt.Sprintf("%s:%d: ", pos.Filename[strings.LastIndex(pos.Filename, "/")+1:], pos.Line) + fmt.Sprintf(format, args...)})
}

var coqReserved = map[string]bool{"at": true, "end": true, "in": true, "fun": true, "if": true, "then": true, "else": true,
	"match": true, "with": true, "return": true, "Type": true, "Set": true, "Prop": true, "as": true, "let": true, "fix": true,
	"by": true, "where": true, "forall": true, "exists": true, "using": true, "cofix": true, "struct": true, "for": true,
	"I": true, "T": true, "N": true, "mod": true, "value": false}

func mangle(s string) string {
	if coqReserved[s] {
		return s + "_"
	}
	if s == "_" {
		return "_"
	}
	return s
}

// ---- types -------------------------------------------------------------------------------------

func isNumType(ty types.Type) bool {
	switch u := ty.(type) {
	case *types.TypeParam:
		if it, ok := u.Constraint().Underlying().(*types.Interface); ok && it.Empty() {
			return false
		}
		return true
	case *types.Basic:
		return u.Info()&types.IsFloat != 0
	case *types.Named:
		return isNumType(u.Underlying())
	}
	return false
}

func isIntType(ty types.Type) bool {
	switch u := ty.(type) {
	case *types.Basic:
		return u.Info()&types.IsInteger != 0
	case *types.Named:
		return isIntType(u.Underlying())
	}
	return false
}

func isBoolType(ty types.Type) bool {
	if b, ok := ty.Underlying().(*types.Basic); ok {
		return b.Info()&types.IsBoolean != 0
	}
	return false
}

func isStringType(ty types.Type) bool {
	if b, ok := ty.Underlying().(*types.Basic); ok {
		return b.Info()&types.IsString != 0
	}
	return false
}

func namedOf(ty types.Type) *types.Named {
	switch u := ty.(type) {
	case *types.Pointer:
		return namedOf(u.Elem())
	case *types.Named:
		return u
	}
	return nil
}

func (fx *fnCtx) coqType(ty types.Type) string {
	s, err := fx.coqTypeE(ty)
	if err != nil {
		panic(trErr{err.Error()})
	}
	return s
}

func (fx *fnCtx) coqTypeE(ty types.Type) (string, error) {
	switch u := ty.(type) {
	case *types.TypeParam:
		if it, ok := u.Constraint().Underlying().(*types.Interface); ok && it.Empty() {
			nm := "A_" + u.Obj().Name()
			if fx.poly == nil {
				fx.poly = map[string]bool{}
			}
			if !fx.poly[nm] {
				fx.poly[nm] = true
				fx.polyOrder = append(fx.polyOrder, nm)
			}
			return nm, nil
		}
		return "T", nil
	case *types.Basic:
		switch {
		case u.Info()&types.IsFloat != 0:
			return "T", nil
		case u.Info()&types.IsInteger != 0:
			return "Z", nil
		case u.Info()&types.IsBoolean != 0:
			return "bool", nil
		case u.Info()&types.IsString != 0:
			return "string", nil
		}
	case *types.Pointer:
		return fx.coqTypeE(u.Elem())
	case *types.Chan:
		e, err := fx.coqTypeE(u.Elem())
		if err != nil {
			return "", err
		}
		return "(expr I " + e + ")", nil
	case *types.Slice:
		e, err := fx.coqTypeE(u.Elem())
		if err != nil {
			return "", err
		}
		return "(list " + e + ")", nil
	case *types.Tuple:
		parts := []string{}
		for i := 0; i < u.Len(); i++ {
			e, err := fx.coqTypeE(u.At(i).Type())
			if err != nil {
				return "", err
			}
			parts = append(parts, e)
		}
		return "(" + strings.Join(parts, " * ") + ")", nil
	case *types.Named:
		obj := u.Obj()
		if obj.Pkg() != nil && obj.Pkg().Path() == "time" && obj.Name() == "Time" {
			return "date", nil
		}
		pi := fx.t.pkgOf(obj)
		if pi == nil {
			return "", fmt.Errorf("unsupported type %s", ty.String())
		}
		if pi.suffix == "helper" && obj.Name() == "Report" {
			return "(report I T)", nil
		}
		if pi.suffix == "helper" && obj.Name() == "Bst" {
			return "(bst T)", nil
		}
		switch under := u.Underlying().(type) {
		case *types.Struct:
			name := pi.prefix + "_" + obj.Name()
			if err := fx.t.needStruct(name, pi, u.Origin(), under); err != nil {
				return "", err
			}
			fx.deps[name] = true
			return name, nil
		case *types.Interface:
			name := pi.prefix + "_" + obj.Name()
			if err := fx.t.needInterface(name, pi, u.Origin(), under); err != nil {
				return "", err
			}
			fx.deps[name] = true
			return name, nil
		case *types.Basic:
			return fx.coqTypeE(under)
		}
	}
	return "", fmt.Errorf("unsupported type %s", ty.String())
}

func (fx *fnCtx) zeroOf(ty types.Type, at ast.Node) string {
	switch {
	case isNumType(ty):
		return "nzero"
	case isIntType(ty):
		return "0%Z"
	case isBoolType(ty):
		return "false"
	case isStringType(ty):
		return "\"\"%string"
	}
	if n := namedOf(ty); n != nil && n.Obj().Pkg() != nil && n.Obj().Pkg().Path() == "time" {
		return "0%Z"
	}
	fx.failf(at, "no zero value for type %s", ty.String())
	return ""
}

// needStruct emits the record for a Go struct type (once), with one setter per field.
func (t *translator) needStruct(name string, pi *pkgInfo, named *types.Named, st *types.Struct) error {
	if _, ok := t.nodes[name]; ok {
		return nil
	}
	if t.inFlight[name] {
		return fmt.Errorf("recursive type %s", name)
	}
	t.inFlight[name] = true
	defer delete(t.inFlight, name)
	fx := &fnCtx{t: t, pi: pi, deps: map[string]bool{}}
	var fields, names []string
	for i := 0; i < st.NumFields(); i++ {
		f := st.Field(i)
		ct, err := fx.coqTypeE(f.Type())
		if err != nil {
			return fmt.Errorf("%s.%s: %v", name, f.Name(), err)
		}
		fields = append(fields, fmt.Sprintf("%s_%s : %s", name, f.Name(), ct))
		names = append(names, f.Name())
	}
	var b strings.Builder
	fmt.Fprintf(&b, "Record %s : Type := mk_%s { %s }.\n", name, name, strings.Join(fields, "; "))
	for i, fn := range names {
		args := make([]string, len(names))
		for j, g := range names {
			if i == j {
				args[j] = "v"
			} else {
				args[j] = fmt.Sprintf("(%s_%s r)", name, g)
			}
		}
		fmt.Fprintf(&b, "Definition set_%s_%s (r : %s) (v : _) : %s := mk_%s %s.\n", name, fn, name, name, name, strings.Join(args, " "))
	}
	// X_periods_ok: every integer field (periods, day counts) is >= 1, recursively
	var conj []string
	for i := 0; i < st.NumFields(); i++ {
		f := st.Field(i)
		acc := fmt.Sprintf("(%s_%s r)", name, f.Name())
		switch {
		case isIntType(f.Type()):
			conj = append(conj, "(Z.leb 1 "+acc+")")
		default:
			if fn := namedOf(f.Type()); fn != nil {
				if fpi := t.pkgOf(fn.Obj()); fpi != nil {
					switch u := fn.Underlying().(type) {
					case *types.Struct:
						conj = append(conj, fmt.Sprintf("(%s_%s_periods_ok %s)", fpi.prefix, fn.Obj().Name(), acc))
					case *types.Interface:
						for k := 0; k < u.NumMethods(); k++ {
							if u.Method(k).Name() == "IdlePeriod" {
								conj = append(conj, fmt.Sprintf("(Z.leb 0 (%s_%s_IdlePeriod %s))", fpi.prefix, fn.Obj().Name(), acc))
							}
						}
					}
				}
			}
		}
	}
	conj = append(conj, "true")
	fmt.Fprintf(&b, "Definition %s_periods_ok (r : %s) : bool := %s.\n", name, name, strings.Join(conj, " && "))
	t.addNode(&node{name: name, text: b.String(), deps: fx.deps, src: pi.suffix + "." + named.Obj().Name(), kind: "translated"})
	return nil
}

// needInterface emits a record of closures for a Go interface (methods Compute / IdlePeriod only).
func (t *translator) needInterface(name string, pi *pkgInfo, named *types.Named, it *types.Interface) error {
	if _, ok := t.nodes[name]; ok {
		return nil
	}
	fx := &fnCtx{t: t, pi: pi, deps: map[string]bool{}}
	var fields []string
	for i := 0; i < it.NumMethods(); i++ {
		m := it.Method(i)
		if m.Name() != "Compute" && m.Name() != "IdlePeriod" {
			continue
		}
		sig := m.Type().(*types.Signature)
		ct, err := fx.sigType(sig)
		if err != nil {
			return err
		}
		fields = append(fields, fmt.Sprintf("%s_%s : %s", name, m.Name(), ct))
	}
	text := fmt.Sprintf("Record %s : Type := mk_%s { %s }.\n", name, name, strings.Join(fields, "; "))
	t.addNode(&node{name: name, text: text, deps: fx.deps, src: pi.suffix + "." + named.Obj().Name(), kind: "translated"})
	return nil
}

func (fx *fnCtx) sigType(sig *types.Signature) (string, error) {
	parts := []string{}
	for i := 0; i < sig.Params().Len(); i++ {
		ct, err := fx.coqTypeE(sig.Params().At(i).Type())
		if err != nil {
			return "", err
		}
		parts = append(parts, ct)
	}
	var res string
	var err error
	if sig.Results().Len() == 1 {
		res, err = fx.coqTypeE(sig.Results().At(0).Type())
	} else {
		res, err = fx.coqTypeE(sig.Results())
	}
	if err != nil {
		return "", err
	}
	parts = append(parts, res)
	return strings.Join(parts, " -> "), nil
}

// asInterface wraps a value of a concrete struct type into the record modelling an interface.
func (fx *fnCtx) coerce(val string, src, dst types.Type, at ast.Node) string {
	if dst == nil || src == nil {
		return val
	}
	dn := namedOf(dst)
	if dn == nil {
		return val
	}
	if _, isIface := dn.Underlying().(*types.Interface); !isIface {
		return val
	}
	if types.IsInterface(src) {
		return val
	}
	sn := namedOf(src)
	if sn == nil {
		fx.failf(at, "cannot coerce %s to interface %s", src, dst)
	}
	ipi := fx.t.pkgOf(dn.Obj())
	spi := fx.t.pkgOf(sn.Obj())
	if ipi == nil || spi == nil {
		fx.failf(at, "cannot coerce %s to interface %s", src, dst)
	}
	iname := ipi.prefix + "_" + dn.Obj().Name()
	sname := spi.prefix + "_" + sn.Obj().Name()
	cname := sname + "_as_" + iname
	if _, ok := fx.t.nodes[cname]; !ok {
		it := dn.Underlying().(*types.Interface)
		fx2 := &fnCtx{t: fx.t, pi: spi, deps: map[string]bool{}}
		if _, err := fx2.coqTypeE(dn); err != nil {
			fx.failf(at, "%v", err)
		}
		if _, err := fx2.coqTypeE(sn); err != nil {
			fx.failf(at, "%v", err)
		}
		var args []string
		for i := 0; i < it.NumMethods(); i++ {
			m := it.Method(i)
			if m.Name() != "Compute" && m.Name() != "IdlePeriod" {
				continue
			}
			mname := sname + "_" + m.Name()
			if !fx.t.needFunc(mname) {
				fx.failf(at, "method %s needed for interface coercion is unavailable", mname)
			}
			fx2.deps[mname] = true
			args = append(args, "("+mname+" x)")
		}
		text := fmt.Sprintf("Definition %s (x : %s) : %s := mk_%s %s.\n", cname, sname, iname, iname, strings.Join(args, " "))
		fx.t.addNode(&node{name: cname, text: text, deps: fx2.deps, src: "coercion", kind: "translated"})
	}
	fx.deps[cname] = true
	return "(" + cname + " " + val + ")"
}

// ---- constants ---------------------------------------------------------------------------------

func (fx *fnCtx) constTerm(v constant.Value, ty types.Type, at ast.Node) string {
	switch {
	case isBoolType(ty):
		if constant.BoolVal(v) {
			return "true"
		}
		return "false"
	case isStringType(ty):
		return fmt.Sprintf("%q%%string", constant.StringVal(v))
	case isIntType(ty):
		i, ok := constant.Int64Val(constant.ToInt(v))
		if !ok {
			fx.failf(at, "integer constant out of range")
		}
		return zlit(i)
	case isNumType(ty):
		return numConst(v, at, fx)
	}
	if b, ok := ty.(*types.Basic); ok && b.Info()&types.IsUntyped != 0 {
		if v.Kind() == constant.Int {
			i, _ := constant.Int64Val(v)
			return zlit(i)
		}
		return numConst(v, at, fx)
	}
	fx.failf(at, "constant of unsupported type %s", ty)
	return ""
}

func zlit(i int64) string {
	if i < 0 {
		return fmt.Sprintf("(%d)%%Z", i)
	}
	return fmt.Sprintf("%d%%Z", i)
}

func numConst(v constant.Value, at ast.Node, fx *fnCtx) string {
	if iv := constant.ToInt(v); iv.Kind() == constant.Int {
		if i, ok := constant.Int64Val(iv); ok {
			return fmt.Sprintf("(nofZ %s)", zlit(i))
		}
	}
	r, ok := constant.Val(constant.ToFloat(v)).(*big.Rat)
	if !ok {
		if f, ok2 := constant.Val(constant.ToFloat(v)).(*big.Float); ok2 {
			r, _ = f.Rat(nil)
		}
	}
	if r == nil {
		fx.failf(at, "unsupported numeric constant %s", v.String())
	}
	if !r.Num().IsInt64() || !r.Denom().IsInt64() {
		fx.failf(at, "numeric constant too large %s", v.String())
	}
	return fmt.Sprintf("(nconst %s %s)", zlit(r.Num().Int64()), zlit(r.Denom().Int64()))
}

// ---- expressions -------------------------------------------------------------------------------

func (fx *fnCtx) typeOf(e ast.Expr) types.Type { return fx.pi.info.TypeOf(e) }

func (fx *fnCtx) expr(e ast.Expr) string {
	if tv, ok := fx.pi.info.Types[e]; ok && tv.Value != nil {
		return fx.constTerm(tv.Value, tv.Type, e)
	}
	switch x := e.(type) {
	case *ast.ParenExpr:
		return fx.expr(x.X)
	case *ast.Ident:
		return fx.ident(x)
	case *ast.BasicLit:
		fx.failf(e, "literal without constant value")
	case *ast.SelectorExpr:
		return fx.selector(x)
	case *ast.StarExpr:
		return fx.expr(x.X)
	case *ast.UnaryExpr:
		return fx.unary(x)
	case *ast.BinaryExpr:
		return fx.binary(x)
	case *ast.CallExpr:
		return fx.call(x)
	case *ast.IndexExpr:
		return fx.index(x)
	case *ast.CompositeLit:
		return fx.composite(x)
	case *ast.FuncLit:
		fx.failf(e, "function literal outside a helper call")
	}
	fx.failf(e, "unsupported expression %T", e)
	return ""
}

func (fx *fnCtx) ident(x *ast.Ident) string {
	obj := fx.pi.info.Uses[x]
	if obj == nil {
		obj = fx.pi.info.Defs[x]
	}
	switch o := obj.(type) {
	case *types.Var:
		if _, isSlice := fx.slices[o]; isSlice {
			fx.failf(x, "slice of channels %s used as a whole", x.Name)
		}
		return mangle(x.Name)
	case *types.Nil:
		fx.failf(x, "nil")
	case *types.Func:
		// reference to a package-level function as a value
		pi := fx.t.pkgOf(o)
		if pi == nil {
			fx.failf(x, "function value %s", x.Name)
		}
		name := pi.prefix + "_" + o.Name()
		if !fx.t.needFunc(name) {
			fx.failf(x, "function %s is unavailable", name)
		}
		fx.deps[name] = true
		return name
	}
	fx.failf(x, "unsupported identifier %s", x.Name)
	return ""
}

func (fx *fnCtx) selector(x *ast.SelectorExpr) string {
	if sel, ok := fx.pi.info.Selections[x]; ok && sel.Kind() == types.FieldVal {
		recv := fx.expr(x.X)
		rn := namedOf(sel.Recv())
		if rn == nil {
			fx.failf(x, "field of unnamed type")
		}
		pi := fx.t.pkgOf(rn.Obj())
		if pi == nil {
			fx.failf(x, "field of foreign type %s", rn)
		}
		tname := fx.coqType(rn)
		return fmt.Sprintf("(%s_%s %s)", tname, x.Sel.Name, recv)
	}
	fx.failf(x, "unsupported selector %s", x.Sel.Name)
	return ""
}

func (fx *fnCtx) unary(x *ast.UnaryExpr) string {
	switch x.Op {
	case token.AND:
		return fx.expr(x.X)
	case token.NOT:
		return "(negb " + fx.expr(x.X) + ")"
	case token.SUB:
		ty := fx.typeOf(x.X)
		if isNumType(ty) {
			return "(nopp " + fx.expr(x.X) + ")"
		}
		return "(Z.opp " + fx.expr(x.X) + ")"
	case token.ARROW:
		fx.failf(x, "channel receive")
	}
	fx.failf(x, "unsupported unary operator %s", x.Op)
	return ""
}

func (fx *fnCtx) binary(x *ast.BinaryExpr) string {
	a, b := fx.expr(x.X), fx.expr(x.Y)
	switch x.Op {
	case token.LAND:
		return fmt.Sprintf("(andb %s %s)", a, b)
	case token.LOR:
		return fmt.Sprintf("(orb %s %s)", a, b)
	}
	ty := fx.typeOf(x.X)
	if b0, ok := ty.(*types.Basic); ok && b0.Info()&types.IsUntyped != 0 {
		ty = fx.typeOf(x.Y)
	}
	var table map[token.Token]string
	switch {
	case isNumType(ty):
		table = map[token.Token]string{token.ADD: "nadd", token.SUB: "nsub", token.MUL: "nmul", token.QUO: "ndiv",
			token.LSS: "nltb", token.LEQ: "nleb", token.GTR: "ngtb", token.GEQ: "ngeb", token.EQL: "neqb", token.NEQ: "nneb"}
	case isIntType(ty):
		table = map[token.Token]string{token.ADD: "Z.add", token.SUB: "Z.sub", token.MUL: "Z.mul", token.QUO: "Z.quot", token.REM: "Z.rem",
			token.LSS: "Z.ltb", token.LEQ: "Z.leb", token.GTR: "Z.gtb", token.GEQ: "Z.geb", token.EQL: "Z.eqb", token.NEQ: "zneb"}
	case isBoolType(ty):
		table = map[token.Token]string{token.EQL: "Bool.eqb", token.NEQ: "xorb"}
	}
	op, ok := table[x.Op]
	if !ok {
		fx.failf(x, "unsupported binary operator %s on %s", x.Op, ty)
	}
	return fmt.Sprintf("(%s %s %s)", op, a, b)
}

func (fx *fnCtx) index(x *ast.IndexExpr) string {
	// cs[k] where cs came from helper.Duplicate
	if id, ok := x.X.(*ast.Ident); ok {
		if obj, ok := fx.pi.info.Uses[id].(*types.Var); ok {
			if n, isSlice := fx.slices[obj]; isSlice {
				tv := fx.pi.info.Types[x.Index]
				if tv.Value == nil {
					fx.failf(x, "non-constant index into duplicated channels")
				}
				k, _ := constant.Int64Val(tv.Value)
				if int(k) >= n || k < 0 {
					fx.failf(x, "index %d out of range of %d duplicated channels", k, n)
				}
				return fmt.Sprintf("%s_%d", mangle(id.Name), k)
			}
		}
	}
	// generic instantiation f[T]
	if tv, ok := fx.pi.info.Types[x.X]; ok && !tv.IsValue() {
		return fx.expr(x.X)
	}
	if _, ok := fx.typeOf(x.X).(*types.Signature); ok {
		return fx.expr(x.X)
	}
	fx.failf(x, "unsupported index expression")
	return ""
}

func (fx *fnCtx) composite(x *ast.CompositeLit) string {
	ty := fx.typeOf(x)
	n := namedOf(ty)
	if n == nil {
		// []Strategy{...}
		if sl, ok := ty.Underlying().(*types.Slice); ok {
			items := []string{}
			for _, el := range x.Elts {
				items = append(items, fx.coerce(fx.expr(el), fx.typeOf(el), sl.Elem(), el))
			}
			return "[" + strings.Join(items, "; ") + "]"
		}
		fx.failf(x, "composite literal of unnamed type")
	}
	st, ok := n.Underlying().(*types.Struct)
	if !ok {
		fx.failf(x, "composite literal of non-struct type")
	}
	tname := fx.coqType(n)
	vals := make([]string, st.NumFields())
	for i := range vals {
		vals[i] = ""
	}
	for i, el := range x.Elts {
		if kv, ok := el.(*ast.KeyValueExpr); ok {
			key := kv.Key.(*ast.Ident).Name
			for j := 0; j < st.NumFields(); j++ {
				if st.Field(j).Name() == key {
					vals[j] = fx.coerce(fx.expr(kv.Value), fx.typeOf(kv.Value), st.Field(j).Type(), kv.Value)
				}
			}
		} else {
			vals[i] = fx.coerce(fx.expr(el), fx.typeOf(el), st.Field(i).Type(), el)
		}
	}
	for j := range vals {
		if vals[j] == "" {
			vals[j] = fx.zeroOf(st.Field(j).Type(), x)
		}
	}
	if len(vals) == 0 {
		return "mk_" + tname
	}
	return "(mk_" + tname + " " + strings.Join(vals, " ") + ")"
}

// ---- calls -------------------------------------------------------------------------------------

func stripInst(e ast.Expr) ast.Expr {
	switch x := e.(type) {
	case *ast.IndexExpr:
		return x.X
	case *ast.IndexListExpr:
		return x.X
	case *ast.ParenExpr:
		return stripInst(x.X)
	}
	return e
}

func (fx *fnCtx) call(c *ast.CallExpr) string {
	fun := stripInst(c.Fun)
	// conversion?
	if tv, ok := fx.pi.info.Types[c.Fun]; ok && tv.IsType() {
		return fx.conversion(c, tv.Type)
	}
	if tv, ok := fx.pi.info.Types[fun]; ok && tv.IsType() {
		return fx.conversion(c, tv.Type)
	}
	switch f := fun.(type) {
	case *ast.Ident:
		switch obj := fx.pi.info.Uses[f].(type) {
		case *types.Builtin:
			fx.failf(c, "builtin %s", f.Name)
		case *types.Func:
			return fx.callFunc(obj, c)
		case *types.Var: // calling a function-typed variable
			return "(" + mangle(f.Name) + fx.args(c, obj.Type().(*types.Signature)) + ")"
		}
	case *ast.SelectorExpr:
		if sel, ok := fx.pi.info.Selections[f]; ok {
			if sel.Kind() == types.MethodVal {
				return fx.callMethod(f, sel, c)
			}
			if sel.Kind() == types.FieldVal { // calling a func-typed field
				fx.failf(c, "call through a field")
			}
		}
		// package-qualified function
		if obj, ok := fx.pi.info.Uses[f.Sel].(*types.Func); ok {
			return fx.callFunc(obj, c)
		}
	}
	fx.failf(c, "unsupported call")
	return ""
}

func (fx *fnCtx) conversion(c *ast.CallExpr, to types.Type) string {
	arg := c.Args[0]
	from := fx.typeOf(arg)
	if tv, ok := fx.pi.info.Types[arg]; ok && tv.Value != nil {
		if isNumType(to) {
			return numConst(tv.Value, c, fx)
		}
		return fx.constTerm(tv.Value, to, c)
	}
	switch {
	case isNumType(to) && isNumType(from):
		return fx.expr(arg)
	case isNumType(to) && isIntType(from):
		return "(nofZ " + fx.expr(arg) + ")"
	case isIntType(to) && isIntType(from):
		return fx.expr(arg)
	}
	fx.failf(c, "unsupported conversion %s -> %s", from, to)
	return ""
}

func (fx *fnCtx) args(c *ast.CallExpr, sig *types.Signature) string {
	var b strings.Builder
	for i, a := range c.Args {
		var pt types.Type
		if sig != nil {
			if sig.Variadic() && i >= sig.Params().Len()-1 {
				pt = sig.Params().At(sig.Params().Len() - 1).Type().(*types.Slice).Elem()
			} else if i < sig.Params().Len() {
				pt = sig.Params().At(i).Type()
			}
		}
		b.WriteString(" ")
		b.WriteString(fx.coerce(fx.expr(a), fx.typeOf(a), pt, a))
	}
	return b.String()
}

var mathFuncs = map[string]string{"Abs": "nabs", "Sqrt": "nsqrt", "Pow": "npow", "Max": "nmax", "Round": "nround"}

func (fx *fnCtx) callFunc(obj *types.Func, c *ast.CallExpr) string {
	if obj.Pkg() != nil && obj.Pkg().Path() == "math" {
		if m, ok := mathFuncs[obj.Name()]; ok {
			return "(" + m + fx.args(c, nil) + ")"
		}
		fx.failf(c, "math.%s", obj.Name())
	}
	if obj.Pkg() != nil && obj.Pkg().Path() == "fmt" && obj.Name() == "Sprintf" {
		return "\"\"%string"
	}
	pi := fx.t.pkgOf(obj)
	if pi == nil {
		fx.failf(c, "call to foreign function %s", obj.FullName())
	}
	if pi.suffix == "helper" {
		if s, ok := fx.helperPrim(obj.Name(), c); ok {
			return s
		}
	}
	name := pi.prefix + "_" + obj.Name()
	if !fx.t.needFunc(name) {
		fx.failf(c, "callee %s is unavailable (%s)", name, fx.t.failed[name])
	}
	fx.deps[name] = true
	sig := obj.Type().(*types.Signature)
	if sig.Variadic() {
		// variadic parameter becomes a list
		n := sig.Params().Len()
		var b strings.Builder
		for i := 0; i < n-1; i++ {
			b.WriteString(" " + fx.coerce(fx.expr(c.Args[i]), fx.typeOf(c.Args[i]), sig.Params().At(i).Type(), c.Args[i]))
		}
		el := sig.Params().At(n - 1).Type().(*types.Slice).Elem()
		items := []string{}
		for i := n - 1; i < len(c.Args); i++ {
			items = append(items, fx.coerce(fx.expr(c.Args[i]), fx.typeOf(c.Args[i]), el, c.Args[i]))
		}
		return "(" + name + b.String() + " [" + strings.Join(items, "; ") + "])"
	}
	if len(c.Args) == 0 {
		return name
	}
	return "(" + name + fx.args(c, sig) + ")"
}

func (fx *fnCtx) callMethod(f *ast.SelectorExpr, sel *types.Selection, c *ast.CallExpr) string {
	recvT := sel.Recv()
	rn := namedOf(recvT)
	if rn == nil {
		fx.failf(c, "method call on unnamed type")
	}
	mname := f.Sel.Name
	rpi := fx.t.pkgOf(rn.Obj())
	if rpi == nil {
		fx.failf(c, "method %s of foreign type %s", mname, rn)
	}
	// captured *helper.Bst inside a closure
	if rpi.suffix == "helper" && rn.Obj().Name() == "Bst" {
		r := fx.expr(f.X)
		switch mname {
		case "Min":
			return "(bst_min " + r + ")"
		case "Max":
			return "(bst_max " + r + ")"
		case "Contains":
			return "(bst_contains" + fx.args(c, nil) + " " + r + ")"
		}
		fx.failf(c, "Bst.%s used as an expression", mname)
	}
	recv := fx.expr(f.X)
	sig := sel.Obj().Type().(*types.Signature)
	if _, isIface := rn.Underlying().(*types.Interface); isIface {
		if mname != "Compute" && mname != "IdlePeriod" {
			fx.failf(c, "interface method %s", mname)
		}
		tname := fx.coqType(rn)
		return fmt.Sprintf("(%s_%s %s%s)", tname, mname, recv, fx.args(c, sig))
	}
	if mname == "Name" || mname == "String" {
		return "\"\"%string"
	}
	name := rpi.prefix + "_" + rn.Obj().Name() + "_" + mname
	if !fx.t.needFunc(name) {
		fx.failf(c, "method %s is unavailable (%s)", name, fx.t.failed[name])
	}
	fx.deps[name] = true
	return "(" + name + " " + recv + fx.args(c, sig) + ")"
}

// helperPrim maps the goroutine-level helpers onto constructors of the expression language.
func (fx *fnCtx) helperPrim(name string, c *ast.CallExpr) (string, bool) {
	a := func(i int) string { return fx.expr(c.Args[i]) }
	switch name {
	case "Map", "Apply":
		if lit, ok := c.Args[1].(*ast.FuncLit); ok {
			cl := fx.closure(lit)
			if cl.stateful {
				return fmt.Sprintf("(EMapSt %s %s %s)", cl.init, cl.term, a(0)), true
			}
			return fmt.Sprintf("(EMap %s %s)", cl.term, a(0)), true
		}
		return fmt.Sprintf("(EMap %s %s)", a(1), a(0)), true
	case "Operate":
		if lit, ok := c.Args[2].(*ast.FuncLit); ok {
			cl := fx.closure(lit)
			if cl.stateful {
				return fmt.Sprintf("(EOp2St %s %s %s %s)", cl.init, cl.term, a(0), a(1)), true
			}
			return fmt.Sprintf("(EOp2 %s %s %s)", cl.term, a(0), a(1)), true
		}
		return fmt.Sprintf("(EOp2 %s %s %s)", a(2), a(0), a(1)), true
	case "Operate3":
		if lit, ok := c.Args[3].(*ast.FuncLit); ok {
			cl := fx.closure(lit)
			if cl.stateful {
				return fmt.Sprintf("(EOp3St %s %s %s %s %s)", cl.init, cl.term, a(0), a(1), a(2)), true
			}
			return fmt.Sprintf("(EOp3 %s %s %s %s)", cl.term, a(0), a(1), a(2)), true
		}
		return fmt.Sprintf("(EOp3 %s %s %s %s)", a(3), a(0), a(1), a(2)), true
	case "MapWithPrevious":
		var f string
		if lit, ok := c.Args[1].(*ast.FuncLit); ok {
			cl := fx.closure(lit)
			if cl.stateful {
				fx.failf(c, "stateful closure in MapWithPrevious")
			}
			f = cl.term
		} else {
			f = a(1)
		}
		return fmt.Sprintf("(EMapSt %s (fun p_ x_ => let r_ := %s p_ x_ in (r_, r_)) %s)", a(2), f, a(0)), true
	case "Skip":
		return fmt.Sprintf("(ESkip %s %s)", a(1), a(0)), true
	case "Shift":
		return fmt.Sprintf("(EShift %s %s %s)", a(1), a(2), a(0)), true
	case "Head":
		return fmt.Sprintf("(EHead %s %s)", a(1), a(0)), true
	case "First":
		return fmt.Sprintf("(EFirst %s %s)", a(1), a(0)), true
	case "Buffered":
		return fmt.Sprintf("(EBuf %s %s)", a(1), a(0)), true
	case "Count":
		return fmt.Sprintf("(ECount N %s %s)", a(0), a(1)), true
	case "NewBst":
		return "bst_empty", true
	case "NewReport":
		return fmt.Sprintf("(mk_report %s)", a(1)), true
	case "Duplicate", "Drain", "Pipe", "Filter", "Last", "Echo", "Seq", "Waitable", "Field", "SliceToChan", "ChanToSlice", "NewRing":
		fx.failf(c, "helper.%s in expression position", name)
	}
	return "", false
}

// ---- closures ----------------------------------------------------------------------------------

type closureOut struct {
	term     string
	init     string
	stateful bool
}

func (fx *fnCtx) closure(lit *ast.FuncLit) closureOut {
	// captured variables that are assigned or mutated through a method inside the literal
	seen := map[types.Object]bool{}
	var state []types.Object
	outside := func(o types.Object) bool { return o.Pos() < lit.Pos() || o.Pos() > lit.End() }
	mark := func(id *ast.Ident) {
		if o, ok := fx.pi.info.Uses[id].(*types.Var); ok && outside(o) && !o.IsField() && !seen[o] {
			seen[o] = true
			state = append(state, o)
		}
	}
	ast.Inspect(lit.Body, func(n ast.Node) bool {
		switch s := n.(type) {
		case *ast.AssignStmt:
			if s.Tok != token.DEFINE {
				for _, l := range s.Lhs {
					if id, ok := l.(*ast.Ident); ok {
						mark(id)
					}
				}
			}
		case *ast.IncDecStmt:
			if id, ok := s.X.(*ast.Ident); ok {
				mark(id)
			}
		case *ast.CallExpr:
			if se, ok := s.Fun.(*ast.SelectorExpr); ok {
				if id, ok := se.X.(*ast.Ident); ok {
					if o, ok := fx.pi.info.Uses[id].(*types.Var); ok && outside(o) {
						if rn := namedOf(o.Type()); rn != nil {
							if rpi := fx.t.pkgOf(rn.Obj()); rpi != nil && rpi.suffix == "helper" {
								switch rn.Obj().Name() {
								case "Bst":
									if se.Sel.Name == "Insert" || se.Sel.Name == "Remove" {
										mark(id)
									}
								case "Ring":
									fx.failf(s, "closure uses a captured helper.Ring")
								}
							}
						}
					}
				}
			}
		case *ast.ForStmt, *ast.RangeStmt, *ast.GoStmt:
			fx.failf(n, "loop or goroutine inside a closure")
		}
		return true
	})
	sort.SliceStable(state, func(i, j int) bool { return state[i].Pos() < state[j].Pos() })
	params := []string{}
	for _, f := range lit.Type.Params.List {
		for _, nm := range f.Names {
			params = append(params, mangle(nm.Name))
		}
	}
	saveSV, saveIn := fx.stateVars, fx.inClosure
	fx.stateVars, fx.inClosure = state, true
	body := fx.block(lit.Body.List)
	fx.stateVars, fx.inClosure = saveSV, saveIn
	if len(state) == 0 {
		return closureOut{term: "(fun " + strings.Join(params, " ") + " => " + body + ")"}
	}
	names := make([]string, len(state))
	for i, o := range state {
		names[i] = mangle(o.Name())
	}
	pat := tuplePat(names)
	return closureOut{stateful: true, init: tupleTerm(names),
		term: "(fun " + pat + " " + strings.Join(params, " ") + " => " + body + ")"}
}

func tuplePat(names []string) string {
	if len(names) == 1 {
		return names[0]
	}
	return "'(" + strings.Join(names, ", ") + ")"
}

func tupleTerm(names []string) string {
	if len(names) == 1 {
		return names[0]
	}
	return "(" + strings.Join(names, ", ") + ")"
}

// ---- statements --------------------------------------------------------------------------------

func (fx *fnCtx) ret(vals []string) string {
	v := tupleTerm(vals)
	if len(vals) > 1 {
		v = "(" + strings.Join(vals, ", ") + ")"
	}
	if fx.inClosure && len(fx.stateVars) > 0 {
		names := make([]string, len(fx.stateVars))
		for i, o := range fx.stateVars {
			names[i] = mangle(o.Name())
		}
		return "(" + tupleTerm(names) + ", " + v + ")"
	}
	return v
}

// block translates a statement list into a Gallina term (the value of the enclosing function).
func (fx *fnCtx) block(stmts []ast.Stmt) string {
	if len(stmts) == 0 {
		panic(trErr{"control reaches the end of a function without return"})
	}
	s, rest := stmts[0], stmts[1:]
	let := func(pat, val string) string { return "let " + pat + " := " + val + " in\n  " + fx.block(rest) }
	switch st := s.(type) {
	case *ast.ReturnStmt:
		vals := make([]string, len(st.Results))
		for i, r := range st.Results {
			vals[i] = fx.expr(r)
			if fx.curSig != nil && i < fx.curSig.Results().Len() && !fx.inClosure {
				vals[i] = fx.coerce(vals[i], fx.typeOf(r), fx.curSig.Results().At(i).Type(), r)
			}
		}
		return fx.ret(vals)
	case *ast.DeclStmt:
		gd := st.Decl.(*ast.GenDecl)
		out := ""
		for _, sp := range gd.Specs {
			vs, ok := sp.(*ast.ValueSpec)
			if !ok {
				fx.failf(st, "unsupported declaration")
			}
			for i, nm := range vs.Names {
				var val string
				if i < len(vs.Values) {
					val = fx.expr(vs.Values[i])
				} else {
					val = fx.zeroOf(fx.pi.info.Defs[nm].Type(), st)
				}
				out += "let " + mangle(nm.Name) + " := " + val + " in\n  "
			}
		}
		return out + fx.block(rest)
	case *ast.AssignStmt:
		return fx.assign(st, rest)
	case *ast.IncDecStmt:
		id, ok := st.X.(*ast.Ident)
		if !ok {
			fx.failf(st, "unsupported ++/--")
		}
		one, op := "1%Z", "Z.add"
		if isNumType(fx.typeOf(st.X)) {
			one, op = "(nofZ 1%Z)", "nadd"
			if st.Tok == token.DEC {
				op = "nsub"
			}
		} else if st.Tok == token.DEC {
			op = "Z.sub"
		}
		return let(mangle(id.Name), fmt.Sprintf("(%s %s %s)", op, mangle(id.Name), one))
	case *ast.ExprStmt:
		return fx.exprStmt(st, rest)
	case *ast.GoStmt:
		// `go helper.Drain(x)`: no effect on values; recorded (the network model keeps it)
		if call := st.Call; call != nil {
			if se, ok := call.Fun.(*ast.SelectorExpr); ok && se.Sel.Name == "Drain" {
				fx.t.rep.Skipped = append(fx.t.rep.Skipped, fx.name+": go helper.Drain")
				return fx.block(rest)
			}
		}
		fx.failf(st, "go statement")
	case *ast.IfStmt:
		if st.Init != nil {
			fx.failf(st, "if with init statement")
		}
		cond := fx.expr(st.Cond)
		thenB := append(append([]ast.Stmt{}, st.Body.List...), rest...)
		var elseB []ast.Stmt
		switch e := st.Else.(type) {
		case nil:
			elseB = rest
		case *ast.BlockStmt:
			elseB = append(append([]ast.Stmt{}, e.List...), rest...)
		case *ast.IfStmt:
			elseB = append([]ast.Stmt{e}, rest...)
		}
		return "(if " + cond + "\n  then " + fx.block(thenB) + "\n  else " + fx.block(elseB) + ")"
	case *ast.SwitchStmt:
		if st.Init != nil || st.Tag == nil {
			fx.failf(st, "unsupported switch")
		}
		tag := fx.expr(st.Tag)
		tagT := fx.typeOf(st.Tag)
		eq := "Z.eqb"
		if isNumType(tagT) {
			eq = "neqb"
		}
		var def []ast.Stmt = rest
		type arm struct {
			conds []string
			body  []ast.Stmt
		}
		var arms []arm
		for _, cc := range st.Body.List {
			cl := cc.(*ast.CaseClause)
			body := append(append([]ast.Stmt{}, cl.Body...), rest...)
			if cl.List == nil {
				def = body
				continue
			}
			var conds []string
			for _, v := range cl.List {
				conds = append(conds, fmt.Sprintf("(%s %s %s)", eq, tag, fx.expr(v)))
			}
			arms = append(arms, arm{conds, body})
		}
		out := fx.block(def)
		for i := len(arms) - 1; i >= 0; i-- {
			c := arms[i].conds[0]
			for _, o := range arms[i].conds[1:] {
				c = "(orb " + c + " " + o + ")"
			}
			out = "(if " + c + "\n  then " + fx.block(arms[i].body) + "\n  else " + out + ")"
		}
		return out
	case *ast.BlockStmt:
		return fx.block(append(append([]ast.Stmt{}, st.List...), rest...))
	case *ast.EmptyStmt:
		return fx.block(rest)
	}
	fx.failf(s, "unsupported statement %T", s)
	return ""
}

func (fx *fnCtx) exprStmt(st *ast.ExprStmt, rest []ast.Stmt) string {
	call, ok := st.X.(*ast.CallExpr)
	if !ok {
		fx.failf(st, "unsupported expression statement")
	}
	if se, ok := call.Fun.(*ast.SelectorExpr); ok {
		if id, ok := se.X.(*ast.Ident); ok {
			if v, ok := fx.pi.info.Uses[id].(*types.Var); ok {
				if rn := namedOf(v.Type()); rn != nil {
					if rpi := fx.t.pkgOf(rn.Obj()); rpi != nil && rpi.suffix == "helper" {
						nm := mangle(id.Name)
						switch rn.Obj().Name() + "." + se.Sel.Name {
						case "Bst.Insert":
							return "let " + nm + " := bst_insert " + fx.expr(call.Args[0]) + " " + nm + " in\n  " + fx.block(rest)
						case "Bst.Remove":
							return "let " + nm + " := bst_remove " + fx.expr(call.Args[0]) + " " + nm + " in\n  " + fx.block(rest)
						case "Report.AddChart":
							return fx.block(rest)
						case "Report.AddColumn":
							col, ok := call.Args[0].(*ast.CallExpr)
							if !ok {
								fx.failf(st, "AddColumn argument")
							}
							cf := stripInst(col.Fun)
							cname := ""
							if cs, ok := cf.(*ast.SelectorExpr); ok {
								cname = cs.Sel.Name
							}
							switch cname {
							case "NewNumericReportColumn":
								label := "\"\"%string"
								if tv, ok := fx.pi.info.Types[col.Args[0]]; ok && tv.Value != nil {
									label = fx.constTerm(tv.Value, tv.Type, col.Args[0])
								}
								return "let " + nm + " := report_add_num " + nm + " " + label + " " + fx.expr(col.Args[1]) + " in\n  " + fx.block(rest)
							case "NewAnnotationReportColumn":
								return "let " + nm + " := report_add_ann " + nm + " " + fx.expr(col.Args[0]) + " in\n  " + fx.block(rest)
							}
							fx.failf(st, "unsupported report column constructor %s", cname)
						}
					}
				}
			}
		}
	}
	fx.failf(st, "unsupported call statement")
	return ""
}

func (fx *fnCtx) assign(st *ast.AssignStmt, rest []ast.Stmt) string {
	cont := func() string { return fx.block(rest) }
	// compound assignment x op= e
	if st.Tok != token.ASSIGN && st.Tok != token.DEFINE {
		id, ok := st.Lhs[0].(*ast.Ident)
		if !ok {
			fx.failf(st, "compound assignment to non-identifier")
		}
		var op token.Token
		switch st.Tok {
		case token.ADD_ASSIGN:
			op = token.ADD
		case token.SUB_ASSIGN:
			op = token.SUB
		case token.MUL_ASSIGN:
			op = token.MUL
		case token.QUO_ASSIGN:
			op = token.QUO
		default:
			fx.failf(st, "unsupported compound assignment")
		}
		be := &ast.BinaryExpr{X: st.Lhs[0], Op: op, Y: st.Rhs[0], OpPos: st.TokPos}
		// type info for the synthetic node: take the operand's type
		ty := fx.typeOf(st.Lhs[0])
		a, b := fx.expr(st.Lhs[0]), fx.expr(st.Rhs[0])
		_ = be
		var fn string
		if isNumType(ty) {
			fn = map[token.Token]string{token.ADD: "nadd", token.SUB: "nsub", token.MUL: "nmul", token.QUO: "ndiv"}[op]
		} else {
			fn = map[token.Token]string{token.ADD: "Z.add", token.SUB: "Z.sub", token.MUL: "Z.mul", token.QUO: "Z.quot"}[op]
		}
		return "let " + mangle(id.Name) + " := (" + fn + " " + a + " " + b + ") in\n  " + cont()
	}
	// x := helper.Duplicate(c, k)
	if len(st.Lhs) == 1 && len(st.Rhs) == 1 {
		if call, ok := st.Rhs[0].(*ast.CallExpr); ok {
			var dupId *ast.Ident
			switch f := stripInst(call.Fun).(type) {
			case *ast.SelectorExpr:
				dupId = f.Sel
			case *ast.Ident:
				dupId = f
			}
			if dupId != nil && dupId.Name == "Duplicate" {
				if obj, ok := fx.pi.info.Uses[dupId].(*types.Func); ok && fx.t.pkgOf(obj) != nil && fx.t.pkgOf(obj).suffix == "helper" {
					id, ok := st.Lhs[0].(*ast.Ident)
					if !ok {
						fx.failf(st, "Duplicate assigned to non-identifier")
					}
					tv := fx.pi.info.Types[call.Args[1]]
					if tv.Value == nil {
						fx.failf(st, "Duplicate with a non-constant count")
					}
					k, _ := constant.Int64Val(tv.Value)
					var obj types.Object = fx.pi.info.Defs[id]
					if obj == nil {
						obj = fx.pi.info.Uses[id]
					}
					if fx.slices == nil {
						fx.slices = map[types.Object]int{}
					}
					fx.slices[obj] = int(k)
					src := fx.expr(call.Args[0])
					out := ""
					base := mangle(id.Name)
					for i := 0; i < int(k); i++ {
						if i == 0 {
							out += fmt.Sprintf("let %s_0 := %s in\n  ", base, src)
						} else {
							out += fmt.Sprintf("let %s_%d := %s_0 in\n  ", base, i, base)
						}
					}
					return out + cont()
				}
			}
		}
	}
	// multi-value: a, b := f(x)
	if len(st.Lhs) > 1 && len(st.Rhs) == 1 {
		names := make([]string, len(st.Lhs))
		for i, l := range st.Lhs {
			id, ok := l.(*ast.Ident)
			if !ok {
				fx.failf(st, "multi-assignment to non-identifier")
			}
			names[i] = mangle(id.Name)
		}
		return "let '(" + strings.Join(names, ", ") + ") := " + fx.expr(st.Rhs[0]) + " in\n  " + cont()
	}
	if len(st.Lhs) != len(st.Rhs) {
		fx.failf(st, "unsupported assignment shape")
	}
	// parallel simple assignments: evaluate all right-hand sides first
	if len(st.Lhs) > 1 {
		out := ""
		tmp := make([]string, len(st.Lhs))
		for i := range st.Lhs {
			tmp[i] = fmt.Sprintf("tmp%d_", i)
			out += "let " + tmp[i] + " := " + fx.expr(st.Rhs[i]) + " in\n  "
		}
		for i, l := range st.Lhs {
			id, ok := l.(*ast.Ident)
			if !ok {
				fx.failf(st, "parallel assignment to non-identifier")
			}
			out += "let " + mangle(id.Name) + " := " + tmp[i] + " in\n  "
		}
		return out + cont()
	}
	lhs, rhs := st.Lhs[0], st.Rhs[0]
	val := fx.expr(rhs)
	switch l := lhs.(type) {
	case *ast.Ident:
		if st.Tok == token.ASSIGN {
			if o := fx.pi.info.Uses[l]; o != nil {
				val = fx.coerce(val, fx.typeOf(rhs), o.Type(), rhs)
			}
		}
		return "let " + mangle(l.Name) + " := " + val + " in\n  " + cont()
	case *ast.IndexExpr:
		target := fx.index(l)
		return "let " + target + " := " + val + " in\n  " + cont()
	case *ast.SelectorExpr:
		// x.F.G = v  ==> rebuild the records along the path
		root, upd := fx.fieldUpdate(l, fx.coerce(val, fx.typeOf(rhs), fx.typeOf(lhs), rhs))
		return "let " + root + " := " + upd + " in\n  " + cont()
	}
	fx.failf(st, "unsupported assignment target")
	return ""
}

// fieldUpdate returns the root variable and the term of its new value for `sel = val`.
func (fx *fnCtx) fieldUpdate(sel *ast.SelectorExpr, val string) (string, string) {
	s, ok := fx.pi.info.Selections[sel]
	if !ok || s.Kind() != types.FieldVal {
		fx.failf(sel, "unsupported assignment target")
	}
	rn := namedOf(s.Recv())
	tname := fx.coqType(rn)
	inner := fx.expr(sel.X)
	upd := fmt.Sprintf("(set_%s_%s %s %s)", tname, sel.Sel.Name, inner, val)
	switch x := sel.X.(type) {
	case *ast.Ident:
		return mangle(x.Name), upd
	case *ast.SelectorExpr:
		return fx.fieldUpdate(x, upd)
	}
	fx.failf(sel, "unsupported assignment target")
	return "", ""
}

// ---- functions ---------------------------------------------------------------------------------

func (fx *fnCtx) translateFunc(fd *ast.FuncDecl) (text string, err error) {
	defer func() {
		if r := recover(); r != nil {
			if te, ok := r.(trErr); ok {
				err = fmt.Errorf("%s", te.msg)
				return
			}
			panic(r)
		}
	}()
	obj := fx.pi.info.Defs[fd.Name].(*types.Func)
	sig := obj.Type().(*types.Signature)
	fx.curSig = sig
	var params []string
	if fd.Recv != nil {
		r := fd.Recv.List[0]
		rt := fx.coqType(sig.Recv().Type())
		nm := "self_"
		if len(r.Names) == 1 && r.Names[0].Name != "_" {
			nm = mangle(r.Names[0].Name)
		}
		params = append(params, fmt.Sprintf("(%s : %s)", nm, rt))
	}
	for i := 0; i < sig.Params().Len(); i++ {
		p := sig.Params().At(i)
		ct := fx.coqType(p.Type())
		nm := mangle(p.Name())
		if nm == "" || nm == "_" {
			nm = fmt.Sprintf("arg%d_", i)
		}
		params = append(params, fmt.Sprintf("(%s : %s)", nm, ct))
	}
	var res string
	if sig.Results().Len() == 1 {
		res = fx.coqType(sig.Results().At(0).Type())
	} else {
		res = fx.coqType(sig.Results())
	}
	body := fx.block(fd.Body.List)
	for i := len(fx.polyOrder) - 1; i >= 0; i-- {
		params = append([]string{"{" + fx.polyOrder[i] + " : Type}"}, params...)
	}
	return fmt.Sprintf("Definition %s %s : %s :=\n  %s.\n", fx.name, strings.Join(params, " "), res, body), nil
}
