// Command translator regenerates the Coq model of the dataflow layer of cinar/indicator from the
// Go sources of the current working tree (tie 1 of DESIGN.md): every struct type, constructor,
// Compute / IdlePeriod / Report method and compositional helper of the listed packages becomes a
// Gallina definition building terms of the stream expression language of coq/Base/Stream.v.
//
// It is syntax-directed and knows nothing about the properties.  Function bodies outside its subset
// (goroutine literals, loops) are taken from hand-written snippets in translator/overrides, keyed by
// the Go function, together with the SHA-256 of the Go source they were written for; a changed hash
// is reported (the correspondence harness then decides whether the hand model is still faithful).
package main

import (
	"bytes"
	"crypto/sha256"
	"encoding/hex"
	"encoding/json"
	"flag"
	"fmt"
	"go/ast"
	"go/importer"
	"go/parser"
	"go/printer"
	"go/token"
	"go/types"
	"os"
	"path/filepath"
	"sort"
	"strings"
)

const modPath = "github.com/cinar/indicator/v2"

// packages in dependency order (suffix of the import path)
var pkgOrder = []string{"helper", "asset", "trend", "volume", "momentum", "volatility", "strategy",
	"strategy/trend", "strategy/momentum", "strategy/volatility", "strategy/volume", "strategy/compound", "strategy/decorator"}

type pkgInfo struct {
	suffix string
	prefix string
	files  []*ast.File
	info   *types.Info
	pkg    *types.Package
}

type node struct {
	name string
	text string
	deps map[string]bool
	src  string // Go origin, for the report
	kind string // translated | override | builtin
}

type overrideInfo struct {
	Key    string `json:"key"`
	Hash   string `json:"go_sha256"`
	Stored string `json:"recorded_sha256"`
	Stale  bool   `json:"stale"`
}

type failure struct {
	Key    string `json:"key"`
	Reason string `json:"reason"`
}

type report struct {
	Translated []string       `json:"translated"`
	Overrides  []overrideInfo `json:"overrides"`
	Primitives []overrideInfo `json:"primitives"`
	Failed     []failure      `json:"failed"`
	Skipped    []string       `json:"skipped_statements"`
	Nodes      int            `json:"definitions"`
	Types      []regType      `json:"types"`
	Order      []string       `json:"definition_order"`
	OutSHA     string         `json:"output_sha256"`
	NetNames   []string       `json:"networks"`
	NetFailed  []failure      `json:"net_failed"`
	NetShapes  []overrideInfo `json:"net_shapes"`
	Effects    []effect       `json:"receiver_writes"`
	Analysed   int            `json:"methods_analysed"`
}

type translator struct {
	fset     *token.FileSet
	pkgs     map[string]*pkgInfo // by full import path
	byTypes  map[*types.Package]*pkgInfo
	nodes    map[string]*node
	order    []string // insertion order of node names (stable output)
	funcs    map[string]*ast.FuncDecl // coq name -> decl
	funcPkg  map[string]*pkgInfo
	ovDir    string
	rep      report
	failed   map[string]string
	inFlight map[string]bool
}

func main() {
	repo := flag.String("repo", "/repo", "repository root")
	out := flag.String("out", "", "output directory for generated .v files")
	rep := flag.String("report", "", "report json path")
	reg := flag.String("registry", "", "path of the generated Go registry for the harness")
	stamp := flag.Bool("stamp-primitives", false, "record the current hashes of the hand-modelled helper primitives (deliberate act, after checking the models)")
	flag.Parse()
	exe, _ := os.Executable()
	_ = exe
	ovDir := os.Getenv("VERIF_OVERRIDES")
	if *out != "" {
		*out, _ = filepath.Abs(*out)
	}
	if *rep != "" {
		*rep, _ = filepath.Abs(*rep)
	}
	if *reg != "" {
		*reg, _ = filepath.Abs(*reg)
	}
	if ovDir == "" {
		// translator/overrides next to the sources (bin/vcheck runs the binary from work/)
		for _, c := range []string{"overrides", filepath.Join(filepath.Dir(*out), "..", "translator", "overrides")} {
			if st, err := os.Stat(c); err == nil && st.IsDir() {
				ovDir, _ = filepath.Abs(c)
				break
			}
		}
	}
	t := &translator{fset: token.NewFileSet(), pkgs: map[string]*pkgInfo{}, byTypes: map[*types.Package]*pkgInfo{},
		nodes: map[string]*node{}, funcs: map[string]*ast.FuncDecl{}, funcPkg: map[string]*pkgInfo{}, ovDir: ovDir,
		failed: map[string]string{}, inFlight: map[string]bool{}}
	if err := os.Chdir(*repo); err != nil {
		fatal(err)
	}
	if err := t.load(*repo); err != nil {
		fatal(err)
	}
	t.index()
	t.primitives(*stamp)
	t.translateAll()
	t.allCoercions()
	if *reg != "" {
		if err := t.emitRegistry(*reg); err != nil {
			fatal(err)
		}
	}
	text := t.emit()
	sum := sha256.Sum256([]byte(text))
	t.rep.OutSHA = hex.EncodeToString(sum[:])
	t.rep.Nodes = len(t.nodes)
	if *out != "" {
		if err := os.MkdirAll(*out, 0o755); err != nil {
			fatal(err)
		}
		eff, analysed, err := t.emitEffects(*out)
		if err != nil {
			fatal(err)
		}
		t.rep.Effects, t.rep.Analysed = eff, analysed
		p := filepath.Join(*out, "All.v")
		old, _ := os.ReadFile(p)
		if !bytes.Equal(old, []byte(text)) { // keep mtime when unchanged so that make is a no-op
			if err := os.WriteFile(p, []byte(text), 0o644); err != nil {
				fatal(err)
			}
		}
	} else {
		fmt.Print(text)
	}
	sort.Strings(t.rep.Translated)
	if *rep != "" {
		data, _ := json.MarshalIndent(t.rep, "", " ")
		_ = os.WriteFile(*rep, data, 0o644)
	}
	fmt.Fprintf(os.Stderr, "translator: %d definitions (%d translated functions, %d overrides, %d failed)\n",
		len(t.nodes), len(t.rep.Translated), len(t.rep.Overrides), len(t.rep.Failed))
	for _, f := range t.rep.Failed {
		fmt.Fprintf(os.Stderr, "  FAILED %s: %s\n", f.Key, f.Reason)
	}
}

func fatal(err error) {
	fmt.Fprintln(os.Stderr, "translator:", err)
	os.Exit(1)
}

// ---- loading -----------------------------------------------------------------------------------

type chainImporter struct {
	t   *translator
	src types.Importer
}

func (c chainImporter) Import(path string) (*types.Package, error) {
	if p, ok := c.t.pkgs[path]; ok && p.pkg != nil {
		return p.pkg, nil
	}
	return c.src.Import(path)
}

func (t *translator) load(repo string) error {
	src := importer.ForCompiler(t.fset, "source", nil)
	for _, suf := range pkgOrder {
		dir := filepath.Join(repo, suf)
		pkgs, err := parser.ParseDir(t.fset, dir, func(fi os.FileInfo) bool { return !strings.HasSuffix(fi.Name(), "_test.go") }, parser.ParseComments)
		if err != nil {
			return err
		}
		pi := &pkgInfo{suffix: suf, prefix: strings.ReplaceAll(suf, "/", "_")}
		for _, p := range pkgs {
			names := make([]string, 0, len(p.Files))
			for n := range p.Files {
				names = append(names, n)
			}
			sort.Strings(names)
			for _, n := range names {
				pi.files = append(pi.files, p.Files[n])
			}
		}
		pi.info = &types.Info{Types: map[ast.Expr]types.TypeAndValue{}, Selections: map[*ast.SelectorExpr]*types.Selection{},
			Uses: map[*ast.Ident]types.Object{}, Defs: map[*ast.Ident]types.Object{}, Instances: map[*ast.Ident]types.Instance{}}
		conf := types.Config{Importer: chainImporter{t, src}, Error: func(error) {}}
		full := modPath + "/" + suf
		pkg, err := conf.Check(full, t.fset, pi.files, pi.info)
		if err != nil && pkg == nil {
			return fmt.Errorf("type-check %s: %v", suf, err)
		}
		pi.pkg = pkg
		t.pkgs[full] = pi
		t.byTypes[pkg] = pi
	}
	return nil
}

func (t *translator) pkgOf(obj types.Object) *pkgInfo {
	if obj == nil || obj.Pkg() == nil {
		return nil
	}
	return t.byTypes[obj.Pkg()]
}

// coq name of a package-level function or method
func funcName(pi *pkgInfo, fd *ast.FuncDecl) string {
	if fd.Recv != nil && len(fd.Recv.List) == 1 {
		return pi.prefix + "_" + recvTypeName(fd.Recv.List[0].Type) + "_" + fd.Name.Name
	}
	return pi.prefix + "_" + fd.Name.Name
}

func recvTypeName(e ast.Expr) string {
	switch x := e.(type) {
	case *ast.StarExpr:
		return recvTypeName(x.X)
	case *ast.IndexExpr:
		return recvTypeName(x.X)
	case *ast.IndexListExpr:
		return recvTypeName(x.X)
	case *ast.Ident:
		return x.Name
	}
	return "?"
}

func (t *translator) index() {
	for _, suf := range pkgOrder {
		pi := t.pkgs[modPath+"/"+suf]
		for _, f := range pi.files {
			for _, d := range f.Decls {
				if fd, ok := d.(*ast.FuncDecl); ok && fd.Body != nil {
					n := funcName(pi, fd)
					t.funcs[n] = fd
					t.funcPkg[n] = pi
				}
			}
		}
	}
}

// primitiveFuncs are the Go functions whose behaviour is hand-modelled in coq/Base/Stream.v, coq/Data and
// coq/Base/GenPrelude.v (constructors of the expression language, Ring, Bst). Their source hashes are recorded in
// translator/primitives.json; a changed hash means the hand model was validated against different source.
var primitiveFuncs = []string{"helper_Map", "helper_Apply", "helper_Operate", "helper_Operate3", "helper_MapWithPrevious", "helper_Skip",
	"helper_Shift", "helper_Head", "helper_First", "helper_Buffered", "helper_Count", "helper_Duplicate", "helper_Drain", "helper_Pipe",
	"helper_SliceToChan", "helper_ChanToSlice", "helper_Filter", "helper_Last", "helper_Echo", "helper_Seq", "helper_Waitable",
	"helper_NewBst", "helper_Bst_Insert", "helper_Bst_Remove", "helper_Bst_Contains", "helper_Bst_Min", "helper_Bst_Max",
	"helper_Bst_searchNode", "helper_Bst_removeNode", "helper_Bst_minNode", "helper_Bst_maxNode",
	"helper_NewRing", "helper_Ring_Put", "helper_Ring_Get", "helper_Ring_At", "helper_Ring_IsFull", "helper_Ring_IsEmpty", "helper_Ring_nextIndex"}

func (t *translator) primitives(stamp bool) {
	path := filepath.Join(t.ovDir, "..", "primitives.json")
	stored := map[string]string{}
	if data, err := os.ReadFile(path); err == nil {
		_ = json.Unmarshal(data, &stored)
	}
	cur := map[string]string{}
	for _, n := range primitiveFuncs {
		fd, ok := t.funcs[n]
		h := "absent"
		if ok {
			h = t.hashFunc(fd)
		}
		cur[n] = h
		t.rep.Primitives = append(t.rep.Primitives, overrideInfo{Key: n, Hash: h, Stored: stored[n], Stale: stored[n] != h})
	}
	if stamp {
		data, _ := json.MarshalIndent(cur, "", " ")
		_ = os.WriteFile(path, append(data, '\n'), 0o644)
		for i := range t.rep.Primitives {
			t.rep.Primitives[i].Stored = t.rep.Primitives[i].Hash
			t.rep.Primitives[i].Stale = false
		}
	}
}

// ---- driving -----------------------------------------------------------------------------------

var helperWanted = map[string]bool{"Abs": true, "Add": true, "Change": true, "ChangePercent": true, "ChangeRatio": true,
	"DecrementBy": true, "Divide": true, "DivideBy": true, "IncrementBy": true, "KeepNegatives": true, "KeepPositives": true,
	"Multiply": true, "MultiplyBy": true, "Pow": true, "RoundDigit": true, "RoundDigits": true, "Sign": true, "Sqrt": true,
	"Subtract": true, "Since": true, "SyncPeriod": true, "CommonPeriod": true}

var strategyFuncsWanted = map[string]bool{"Outcome": true, "NormalizeActions": true, "DenormalizeActions": true,
	"CountTransactions": true, "ActionsToAnnotations": true, "ComputeWithOutcome": true, "ActionSources": true}

func (t *translator) wantFunc(pi *pkgInfo, fd *ast.FuncDecl) bool {
	name := fd.Name.Name
	if fd.Recv != nil {
		switch name {
		case "Compute", "IdlePeriod", "Report", "Annotation":
			return true
		}
		return false // private helpers are pulled in on demand
	}
	switch pi.suffix {
	case "helper":
		return helperWanted[name]
	case "asset":
		return strings.HasPrefix(name, "SnapshotsAs")
	case "strategy":
		return strategyFuncsWanted[name] || (strings.HasPrefix(name, "New") && ast.IsExported(name))
	}
	return strings.HasPrefix(name, "New") && ast.IsExported(name)
}

func (t *translator) translateAll() {
	names := make([]string, 0, len(t.funcs))
	for n := range t.funcs {
		names = append(names, n)
	}
	sort.Strings(names)
	for _, n := range names {
		if t.wantFunc(t.funcPkg[n], t.funcs[n]) {
			t.needFunc(n)
		}
	}
}

// needFunc makes sure the definition for a Go function exists; returns false when it cannot be produced.
func (t *translator) needFunc(name string) bool {
	if _, ok := t.nodes[name]; ok {
		return true
	}
	if _, bad := t.failed[name]; bad {
		return false
	}
	if t.inFlight[name] {
		return true // recursion (does not occur in the translated subset)
	}
	fd, ok := t.funcs[name]
	if !ok {
		t.failed[name] = "no such function"
		return false
	}
	pi := t.funcPkg[name]
	t.inFlight[name] = true
	defer delete(t.inFlight, name)
	goHash := t.hashFunc(fd)
	// hand-written override?
	if t.ovDir != "" {
		if data, err := os.ReadFile(filepath.Join(t.ovDir, name+".v")); err == nil {
			text := string(data)
			stored := ""
			deps := map[string]bool{}
			for _, line := range strings.Split(text, "\n") {
				line = strings.TrimSpace(line)
				if strings.HasPrefix(line, "(* go-sha256:") {
					stored = strings.TrimSpace(strings.TrimSuffix(strings.TrimPrefix(line, "(* go-sha256:"), "*)"))
				}
				if strings.HasPrefix(line, "(* deps:") {
					for _, d := range strings.Fields(strings.TrimSuffix(strings.TrimPrefix(line, "(* deps:"), "*)")) {
						deps[d] = true
					}
				}
			}
			ok := true
			depNames := make([]string, 0, len(deps))
			for d := range deps {
				depNames = append(depNames, d)
			}
			sort.Strings(depNames) // the order of production decides the order of emission: keep it deterministic
			for _, d := range depNames {
				if !t.needAny(d) {
					ok = false
					t.fail(name, "override depends on "+d+" which could not be produced")
				}
			}
			if ok {
				t.addNode(&node{name: name, text: strings.TrimRight(text, "\n") + "\n", deps: deps, src: pi.suffix + "." + fd.Name.Name, kind: "override"})
				t.rep.Overrides = append(t.rep.Overrides, overrideInfo{Key: name, Hash: goHash, Stored: stored, Stale: stored != goHash})
				return true
			}
			return false
		}
	}
	fx := &fnCtx{t: t, pi: pi, deps: map[string]bool{}, name: name}
	text, err := fx.translateFunc(fd)
	if err != nil {
		t.fail(name, err.Error())
		return false
	}
	t.addNode(&node{name: name, text: text, deps: fx.deps, src: pi.suffix + "." + fd.Name.Name, kind: "translated"})
	t.rep.Translated = append(t.rep.Translated, name)
	return true
}

// needAny resolves a dependency name that is either a function or a type/other generated node.
func (t *translator) needAny(name string) bool {
	if _, ok := t.nodes[name]; ok {
		return true
	}
	if _, ok := t.funcs[name]; ok {
		return t.needFunc(name)
	}
	// a type name prefix_Type ?
	for _, suf := range pkgOrder {
		pi := t.pkgs[modPath+"/"+suf]
		if strings.HasPrefix(name, pi.prefix+"_") {
			tn := strings.TrimPrefix(name, pi.prefix+"_")
			if obj := pi.pkg.Scope().Lookup(tn); obj != nil {
				if _, ok := obj.(*types.TypeName); ok {
					fx := &fnCtx{t: t, pi: pi, deps: map[string]bool{}}
					if _, err := fx.coqTypeE(obj.Type()); err == nil {
						_, ok := t.nodes[name]
						return ok
					}
				}
			}
		}
	}
	return false
}

func (t *translator) fail(name, reason string) {
	if _, ok := t.failed[name]; !ok {
		t.failed[name] = reason
		t.rep.Failed = append(t.rep.Failed, failure{Key: name, Reason: reason})
	}
}

func (t *translator) addNode(n *node) {
	if _, ok := t.nodes[n.name]; ok {
		return
	}
	t.nodes[n.name] = n
	t.order = append(t.order, n.name)
}

func (t *translator) hashFunc(fd *ast.FuncDecl) string {
	var buf bytes.Buffer
	cp := *fd
	cp.Doc = nil
	_ = printer.Fprint(&buf, t.fset, &cp)
	// strip comments inside the body by re-scanning lines
	var lines []string
	for _, l := range strings.Split(buf.String(), "\n") {
		s := strings.TrimSpace(l)
		if s == "" || strings.HasPrefix(s, "//") {
			continue
		}
		lines = append(lines, s)
	}
	sum := sha256.Sum256([]byte(strings.Join(lines, "\n")))
	return hex.EncodeToString(sum[:])
}

// ---- output ------------------------------------------------------------------------------------

func (t *translator) emit() string {
	var b strings.Builder
	b.WriteString("(* GENERATED by verif/translator from the Go sources of /repo on every run. DO NOT EDIT. *)\n")
	b.WriteString("From Coq Require Import ZArith List Bool String.\nImport ListNotations.\n")
	b.WriteString("From Verif Require Import Base.Num Base.Stream Base.GenPrelude Kahn.Kahn Kahn.Helpers Kahn.NetPrelude.\n")
	b.WriteString("Set Implicit Arguments.\nLocal Open Scope Z_scope.\n\n")
	b.WriteString("Section Gen.\nContext {I T : Type} {N : Num T}.\n\n")
	done := map[string]bool{}
	var visit func(string, []string)
	visit = func(n string, stack []string) {
		if done[n] {
			return
		}
		nd, ok := t.nodes[n]
		if !ok {
			return
		}
		for _, s := range stack {
			if s == n {
				return
			}
		}
		deps := make([]string, 0, len(nd.deps))
		for d := range nd.deps {
			deps = append(deps, d)
		}
		sort.Strings(deps)
		for _, d := range deps {
			visit(d, append(stack, n))
		}
		done[n] = true
		t.rep.Order = append(t.rep.Order, n)
		b.WriteString(fmt.Sprintf("(* %s [%s] *)\n", nd.src, nd.kind))
		b.WriteString(nd.text)
		b.WriteString("\n")
	}
	for _, n := range t.order {
		visit(n, nil)
	}
	// the networks (C03): value-erased pipeline builders for the functions that are compositions of channel helpers
	nets, netNames, netFailed, netShapes := t.emitNets()
	b.WriteString("(* ---- networks (translator/net.go) ---- *)\n\n")
	b.WriteString(nets)
	t.rep.NetNames, t.rep.NetFailed, t.rep.NetShapes = netNames, netFailed, netShapes
	b.WriteString("End Gen.\n")
	return b.String()
}
