(* go-sha256: 89e5b89c23582e92e9888d998d90e33540b6c395463889e1b5fa792f297e0f35 *)
(* deps: helper_Abs_net helper_Change_net trend_MovingSum_Compute_net helper_Divide_net helper_Pow_net helper_IncrementBy_net helper_MultiplyBy_net *)
(* The helper calls as in the Go body; the final goroutine takes one closing, then for every further closing takes one smoothing
   constant and emits one value, and drains both inputs at the end: Skip(closings, 1) zipped with the constants by Operate.
   (Operate stops at the first closed input where the Go loop would go on with zero constants; both streams have n - ErPeriod
   values, so the difference cannot show.) *)
Definition trend_Kama_Compute_net (k : trend_Kama) (closings : nat) : M nat :=
  bind (n_duplicate closings 3) (fun cs =>
  bind (helper_Change_net (chan_at cs 0) (trend_Kama_ErPeriod k)) (fun d0 => bind (helper_Abs_net d0) (fun directions =>
  bind (helper_Change_net (chan_at cs 1) 1) (fun c1 => bind (helper_Abs_net c1) (fun a1 =>
  bind (trend_MovingSum_Compute_net (trend_NewMovingSumWithPeriod (trend_Kama_ErPeriod k)) a1) (fun volatilitys =>
  bind (helper_Divide_net directions volatilitys) (fun ers =>
  bind (helper_MultiplyBy_net ers) (fun m1 => bind (helper_IncrementBy_net m1) (fun m2 => bind (helper_Pow_net m2) (fun scs =>
  bind (n_skip (chan_at cs 2) (trend_Kama_ErPeriod k - 1)) (fun c2 =>
  bind (n_skip c2 1) (fun c3 => n_operate c3 scs)))))))))))).
