(* go-sha256: da2d168c8ec65950963d9e7dcf0335ed382de027384ca1da8522ee9c8bd1292e *)
(* same loop as the EMA: seed from the SMA of the first Period values, then one value out per value in, capacity cap(c) *)
Definition trend_Rma_Compute_net (r : trend_Rma) (c : nat) : M nat := n_lagging c (trend_Rma_Period r - 1).
