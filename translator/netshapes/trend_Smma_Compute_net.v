(* go-sha256: 35b2f071131ccf5b51aedf96a036b982b38987575ebac5e5905032c400ed74bd *)
(* same loop as the EMA: seed from the SMA of the first Period values, then one value out per value in, capacity cap(c) *)
Definition trend_Smma_Compute_net (s : trend_Smma) (c : nat) : M nat := n_lagging c (trend_Smma_Period s - 1).
