(* go-sha256: 6fafd9a3624bc87bbd76abeab1a6ddc5699c50b26431973e5ff12c004a02270d *)
(* The EMA goroutine takes the first Period values through Head and an SMA (a closed sub-pipeline of its own), emits their
   mean, and then emits one value per value received, on make(chan T, cap(c)): it lags Period-1 values. *)
Definition trend_Ema_Compute_net (e : trend_Ema) (c : nat) : M nat := n_lagging c (trend_Ema_Period e - 1).
