(* go-sha256: cd917f1c2243745c5c2044a3b9b91359d0227bf4ef4df1bf227cbfd3fc08150b *)
(* deps: asset_SnapshotsAsClosings_net *)
(* closings := SnapshotsAsClosings(snapshots); one goroutine: Buy for the first closing, Hold for every other, on make(chan Action, cap(snapshots)) *)
Definition strategy_BuyAndHoldStrategy_Compute_net (self_ : strategy_BuyAndHoldStrategy) (snapshots : nat) : M nat :=
  bind (cap_of snapshots) (fun k => bind (asset_SnapshotsAsClosings_net snapshots) (fun c =>
  bind (fresh k) (fun o => bind (emit (NBuffered c o)) (fun _ => ret o)))).
