(* go-sha256: b9a22e101dd6e276593b56839ec853cae875caf99abb18e8db7e02393107107c *)
(* one goroutine with a ring: nothing until the ring is full (Period-1 values), then one value out per value in, capacity cap(c) *)
Definition volatility_MovingStd_Compute_net (m : volatility_MovingStd) (c : nat) : M nat := n_lagging c (volatility_MovingStd_Period m - 1).
