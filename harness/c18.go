// C18: unit independence. Every indicator and strategy is run on a series and on the series with all prices multiplied by 2^a
// and all volumes by 2^b (IEEE arithmetic is exactly scale-covariant for powers of two): indicator outputs must be multiplied by
// exactly 2^(a*dp + b*dv) (the homogeneity degrees of the documented formula), strategy actions must be unchanged.
package main

import (
	"fmt"
	"math"
	"strings"
	"time"
)

func init() { registry["C18"] = runC18 }

type deg struct{ p, v int }

// homogeneity degrees (price, volume) of every output, from the documented formulas
var degrees = map[string][]deg{
	"trend.Apo": {{1, 0}}, "trend.Aroon": {{0, 0}, {0, 0}}, "trend.Bop": {{0, 0}}, "trend.Cci": {{0, 0}}, "trend.Dema": {{1, 0}}, "trend.Ema": {{1, 0}},
	"trend.Envelope": {{1, 0}, {1, 0}, {1, 0}}, "trend.Hma": {{1, 0}}, "trend.Kama": {{1, 0}}, "trend.Kdj": {{0, 0}, {0, 0}, {0, 0}}, "trend.Macd": {{1, 0}, {1, 0}},
	"trend.MassIndex": {{0, 0}}, "trend.MovingMax": {{1, 0}}, "trend.MovingMin": {{1, 0}}, "trend.MovingSum": {{1, 0}}, "trend.Rma": {{1, 0}}, "trend.Sma": {{1, 0}},
	"trend.Smma": {{1, 0}}, "trend.Tema": {{1, 0}}, "trend.Trima": {{1, 0}}, "trend.Trix": {{0, 0}}, "trend.Tsi": {{0, 0}}, "trend.TypicalPrice": {{1, 0}},
	"trend.Vwma": {{1, 0}}, "trend.WeightedClose": {{1, 0}}, "trend.Wma": {{1, 0}},
	"momentum.AwesomeOscillator": {{1, 0}}, "momentum.ChaikinOscillator": {{0, 1}, {0, 1}}, "momentum.IchimokuCloud": {{1, 0}, {1, 0}, {1, 0}, {1, 0}, {1, 0}},
	"momentum.Ppo": {{0, 0}, {0, 0}, {0, 0}}, "momentum.Pvo": {{0, 0}, {0, 0}, {0, 0}}, "momentum.Qstick": {{1, 0}}, "momentum.Rsi": {{0, 0}},
	"momentum.StochasticOscillator": {{0, 0}, {0, 0}}, "momentum.StochasticRsi": {{0, 0}}, "momentum.WilliamsR": {{0, 0}},
	"volatility.AccelerationBands": {{1, 0}, {1, 0}, {1, 0}}, "volatility.Atr": {{1, 0}}, "volatility.BollingerBands": {{1, 0}, {1, 0}, {1, 0}},
	"volatility.BollingerBandWidth": {{0, 0}}, "volatility.ChandelierExit": {{1, 0}, {1, 0}}, "volatility.DonchianChannel": {{1, 0}, {1, 0}, {1, 0}},
	"volatility.KeltnerChannel": {{1, 0}, {1, 0}, {1, 0}}, "volatility.MovingStd": {{1, 0}}, "volatility.PercentB": {{0, 0}}, "volatility.Po": {{0, 0}},
	"volatility.SuperTrend": {{1, 0}}, "volatility.UlcerIndex": {{0, 0}},
	"volume.Ad": {{0, 1}}, "volume.Cmf": {{0, 0}}, "volume.Emv": {{2, -1}}, "volume.Fi": {{1, 1}}, "volume.Mfi": {{0, 0}}, "volume.Mfm": {{0, 0}}, "volume.Mfv": {{0, 1}},
	"volume.Nvi": {{0, 0}}, "volume.Obv": {{0, 1}}, "volume.Vpt": {{0, 1}}, "volume.Vwap": {{1, 0}},
}

// generic (non-OHLCV) inputs are treated as prices
func scaleInputs(names []string, inputs [][]float64, a, b int) [][]float64 {
	out := make([][]float64, len(inputs))
	for i, in := range inputs {
		k := a
		if strings.HasPrefix(strings.ToLower(names[i]), "volume") {
			k = b
		}
		out[i] = make([]float64, len(in))
		for j, x := range in {
			out[i][j] = math.Ldexp(x, k)
		}
	}
	return out
}

type c18Input struct {
	Type   string         `json:"type"`
	Spec   Spec           `json:"spec"`
	Cfg    string         `json:"coq_cfg"`
	A      int            `json:"price_factor_log2"`
	B      int            `json:"volume_factor_log2"`
	Inputs [][]string     `json:"inputs,omitempty"`
	Bars   map[string]any `json:"bars,omitempty"`
	Out    any            `json:"outputs"`
	Scaled any            `json:"outputs_on_scaled_series"`
}

func (c *Ctx) c18Indicator(typeKey string, sp Spec, inputs [][]float64, a, b int) {
	t := genTypes[typeKey]
	dg, ok := degrees[typeKey]
	if !ok {
		return
	}
	inst, cfg, err := sp.Build()
	if err != nil {
		panic(err)
	}
	base, hung := runIndicatorOnce(inst, inputs, time.Second)
	if hung {
		return
	}
	sc, hung2 := runIndicatorOnce(inst, scaleInputs(t.InNames, inputs, a, b), time.Second)
	if hung2 {
		return
	}
	c.Count("indicator/" + typeKey)
	c.Meta.Evaluations++
	if len(inputs) > 0 && len(inputs[0]) > 0 {
		c.Meta.DistinctNontrivial++
	}
	for j := range base {
		if j >= len(dg) {
			break
		}
		k := a*dg[j].p + b*dg[j].v
		bad := len(sc[j]) != len(base[j])
		for i := 0; !bad && i < len(base[j]); i++ {
			want := math.Ldexp(base[j][i], k)
			if !sameF(want, sc[j][i]) && !(math.IsNaN(want) && math.IsNaN(sc[j][i])) {
				bad = true
			}
		}
		if bad {
			ins := make([][]string, len(inputs))
			for i := range inputs {
				ins[i] = jsonF(inputs[i])
			}
			c.Direct(Violation{Subject: typeKey, Kind: "spec", Detail: fmt.Sprintf("%s output %d: prices x 2^%d, volumes x 2^%d should multiply it by 2^%d (degrees %v)", cfg, j, a, b, k, dg[j]),
				Input: c18Input{Type: typeKey, Spec: sp, Cfg: cfg, A: a, B: b, Inputs: ins, Out: jsonFF(base), Scaled: jsonFF(sc)}})
			return
		}
	}
}

func scaleBars(b Bars, a, v int) Bars {
	f := func(xs []float64, k int) []float64 {
		out := make([]float64, len(xs))
		for i, x := range xs {
			out[i] = math.Ldexp(x, k)
		}
		return out
	}
	return Bars{Open: f(b.Open, a), High: f(b.High, a), Low: f(b.Low, a), Close: f(b.Close, a), Volume: f(b.Volume, v), Day: b.Day}
}

func (c *Ctx) c18Strategy(typeKey string, sp Spec, b Bars, a, v int) {
	inst, cfg, err := sp.Build()
	if err != nil {
		panic(err)
	}
	base, hung := runStrategy(inst, b, 2*time.Second)
	if hung {
		return
	}
	sc, hung2 := runStrategy(inst, scaleBars(b, a, v), 2*time.Second)
	if hung2 {
		return
	}
	c.Count("strategy/" + typeKey)
	c.Meta.Evaluations++
	c.Meta.DistinctNontrivial++
	if !isPrefixZ(base, sc) || len(base) != len(sc) {
		c.Direct(Violation{Subject: typeKey, Kind: "spec", Detail: fmt.Sprintf("%s: prices x 2^%d, volumes x 2^%d changed the recommendations", cfg, a, v),
			Input: c18Input{Type: typeKey, Spec: sp, Cfg: cfg, A: a, B: v, Bars: barsJSON(b), Out: base, Scaled: sc}})
	}
}

func runC18(c *Ctx) error {
	c.header = fmt.Sprintf(flowHeader, "Run.ValRun")
	c.Meta.Rule = "every indicator (with its table of homogeneity degrees per output) and every strategy type x sampled configurations x OHLCV series (all regimes) x price factors 2^a, " +
		"volume factors 2^b (a, b in -8..10 most of the time, -30..30 otherwise): outputs on the rescaled series must equal 2^(a*dp+b*dv) times the outputs on the original series bit-for-bit, actions must be identical. " +
		"A relation between two runs of the implementation, decided by the harness; the whole-series runs of C01/C05 tie the implementation to the model."
	if c.Replay != "" {
		var in c18Input
		if err := readReplayInput(c.Replay, &in); err != nil {
			return err
		}
		if in.Bars != nil {
			c.c18Strategy(in.Type, in.Spec, barsFromJSON(in.Bars), in.A, in.B)
		} else {
			inputs := make([][]float64, len(in.Inputs))
			for i := range in.Inputs {
				inputs[i] = parseF(in.Inputs[i])
			}
			c.c18Indicator(in.Type, in.Spec, inputs, in.A, in.B)
		}
		return nil
	}
	cfgs := c.N(3, 10)
	for _, typeKey := range typeKeys("indicator") {
		t := genTypes[typeKey]
		for k := 0; k < cfgs; k++ {
			sp := c.randSpec(typeKey, 7, 0, k > 0)
			for r := 0; r < 2; r++ {
				n := 30 + c.Rng.IntN(60)
				bars, _ := c.randBars(n)
				g1, _ := c.randSeries(n)
				g2, _ := c.randSeries(n)
				if r == 1 { // bars without trades: a zero volume is where a volume unit can hide
					for i := range bars.Volume {
						if c.Rng.IntN(3) == 0 {
							bars.Volume[i] = 0
						}
					}
				}
				c.c18Indicator(typeKey, sp, inputsFor(t.InNames, bars, [][]float64{g1, g2}), c.c18Exp(), c.c18Exp())
			}
		}
	}
	for _, typeKey := range typeKeys("strategy") {
		reps := cfgs
		if strings.Contains(typeKey, "decorator.") { // stateful rules on prices (stop prices, entry prices): more runs each
			reps = 6 * cfgs
		}
		for k := 0; k < reps; k++ {
			sp := c.randSpec(typeKey, 7, 0, k > 0)
			if strings.Contains(typeKey, "decorator.") && k%2 == 1 {
				// an inner strategy that holds a position from the first bar, and a small threshold, so that the decorator's
				// own price rule (not the inner strategy's silence) decides what comes out
				for i := range sp.Args {
					if sp.Args[i].Sub != nil {
						sp.Args[i].Sub = &Spec{Ctor: "strategy.NewBuyAndHoldStrategy"}
					}
					if sp.Args[i].Float != nil {
						v := []float64{0.01, 0.02, 0.03, 0.05}[c.Rng.IntN(4)]
						sp.Args[i].Float = &v
					}
				}
			}
			n := 40 + c.Rng.IntN(80)
			b, _ := c.randBars(n)
			c.c18Strategy(typeKey, sp, b, c.c18Exp(), c.c18Exp())
		}
	}
	return nil
}

// c18Exp draws the exponent of a unit change: modest most of the time, large (sub-cent or mega-unit quotes) otherwise.
func (c *Ctx) c18Exp() int {
	if c.Rng.IntN(3) == 0 {
		return c.Rng.IntN(61) - 30
	}
	return c.Rng.IntN(19) - 8
}
