// C19: malformed external data. Every input is handled in a CHILD process (a panic in a library goroutine kills the process
// and cannot be recovered): the child feeds the bytes to the real reader, drains the stream under a watchdog, takes a goroutine
// census and reports. The parent computes the well-formed prefix independently (encoding/csv / encoding/json used directly) and
// hands the all-string CSV cases to the Coq model of the glue.
package main

import (
	"bytes"
	"encoding/csv"
	"encoding/hex"
	"encoding/json"
	"fmt"
	"io"
	"net/http"
	"net/http/httptest"
	"os"
	"os/exec"
	"runtime"
	"sort"
	"strings"
	"time"

	"github.com/cinar/indicator/v2/asset"
	"github.com/cinar/indicator/v2/helper"
)

func init() { registry["C19"] = runC19 }

type c19Job struct {
	Kind   string `json:"kind"` // csv-str3 | csv-typed | json-int | json-rec | tiingo | file
	Header bool   `json:"header,omitempty"`
	Data   []byte `json:"data"`
	Status int    `json:"status,omitempty"`
}

// hexRows carries byte strings through JSON unchanged (encoding/json would replace bytes that are not valid UTF-8 by U+FFFD).
type hexRows []string

func (h hexRows) MarshalJSON() ([]byte, error) {
	out := make([]string, len(h))
	for i, r := range h {
		out[i] = hex.EncodeToString([]byte(r))
	}
	return json.Marshal(out)
}

func (h *hexRows) UnmarshalJSON(data []byte) error {
	var in []string
	if err := json.Unmarshal(data, &in); err != nil {
		return err
	}
	*h = make(hexRows, len(in))
	for i, r := range in {
		b, err := hex.DecodeString(r)
		if err != nil {
			return err
		}
		(*h)[i] = string(b)
	}
	return nil
}

type c19Result struct {
	Rows       hexRows `json:"rows_hex"`
	Closed     bool    `json:"closed"`
	Err        string  `json:"err,omitempty"`
	Goroutines int     `json:"library_goroutines_left"`
}

type typed3 struct {
	N int
	F float64
	S string
}
type str3 struct{ A, B, C string }
type jrec2 struct {
	Name string  `json:"name"`
	V    float64 `json:"v"`
}

func libraryGoroutines() int {
	buf := make([]byte, 1<<20)
	n := runtime.Stack(buf, true)
	cnt := 0
	for _, g := range strings.Split(string(buf[:n]), "\n\n") {
		if strings.Contains(g, "github.com/cinar/indicator/v2/") && !strings.Contains(g, "main.runC19Child") {
			cnt++
		}
	}
	return cnt
}

func collect[T any](ch <-chan T, show func(T) string) ([]string, bool) {
	xs, ok := drainT(ch, 3*time.Second)
	out := make([]string, len(xs))
	for i, x := range xs {
		out[i] = show(x)
	}
	return out, ok
}

// runC19Child executes one job read from stdin and prints its result.
func runC19Child() {
	var job c19Job
	if err := json.NewDecoder(os.Stdin).Decode(&job); err != nil {
		fmt.Fprintln(os.Stderr, "bad job:", err)
		os.Exit(3)
	}
	var res c19Result
	switch job.Kind {
	case "csv-str3":
		cs, _ := helper.NewCsv[str3](job.Header)
		res.Rows, res.Closed = collect(cs.ReadFromReader(bytes.NewReader(job.Data)), func(r *str3) string { return strings.Join([]string{r.A, r.B, r.C}, "\x1f") })
	case "csv-typed":
		cs, _ := helper.NewCsv[typed3](job.Header)
		res.Rows, res.Closed = collect(cs.ReadFromReader(bytes.NewReader(job.Data)), func(r *typed3) string { return fmt.Sprintf("%d\x1f%v\x1f%s", r.N, r.F, r.S) })
	case "file":
		_, err := helper.ReadFromCsvFile[str3](string(job.Data), true)
		res.Closed = true
		if err != nil {
			res.Err = "error"
		}
	case "json-int":
		res.Rows, res.Closed = collect(helper.JSONToChan[int](bytes.NewReader(job.Data)), func(v int) string { return fmt.Sprint(v) })
	case "json-rec":
		res.Rows, res.Closed = collect(helper.JSONToChan[jrec2](bytes.NewReader(job.Data)), func(v jrec2) string { return fmt.Sprintf("%s\x1f%v", v.Name, v.V) })
	case "tiingo":
		srv := httptest.NewServer(http.HandlerFunc(func(w http.ResponseWriter, r *http.Request) {
			w.WriteHeader(job.Status)
			_, _ = w.Write(job.Data)
		}))
		repo := asset.NewTiingoRepository("key")
		repo.BaseURL = srv.URL
		ch, err := repo.GetSince("x", time.Date(2020, 1, 1, 0, 0, 0, 0, time.UTC))
		if err != nil {
			res.Err, res.Closed = "error", true
		} else {
			res.Rows, res.Closed = collect(ch, func(s *asset.Snapshot) string { return fmt.Sprintf("%s\x1f%v", s.Date.Format("2006-01-02"), s.Close) })
		}
		if _, err := repo.LastDate("x"); err != nil && res.Err == "" {
			res.Err = "lastdate-error"
		}
		srv.CloseClientConnections()
		srv.Close()
	}
	time.Sleep(20 * time.Millisecond)
	res.Goroutines = libraryGoroutines()
	_ = json.NewEncoder(os.Stdout).Encode(res)
}

func runChild(job c19Job) (res c19Result, panicked bool, raw string) {
	data, _ := json.Marshal(job)
	cmd := exec.Command(os.Args[0], "C19CHILD")
	cmd.Stdin = bytes.NewReader(data)
	var out, errb bytes.Buffer
	cmd.Stdout, cmd.Stderr = &out, &errb
	err := cmd.Run()
	if err != nil {
		return res, true, errb.String()
	}
	_ = json.Unmarshal(out.Bytes(), &res)
	return res, false, errb.String()
}

// csvEvents runs encoding/csv with the reader's settings and returns the events in Coq syntax plus the record list.
func csvEvents(data []byte) (string, [][]string, bool) {
	r := csv.NewReader(bytes.NewReader(data))
	var evs []string
	var recs [][]string
	for {
		rec, err := r.Read()
		if err == io.EOF {
			return coqList(evs), recs, false
		}
		if err != nil {
			evs = append(evs, "EErr")
			return coqList(evs), recs, true
		}
		evs = append(evs, "ERec "+coqListS(rec))
		recs = append(recs, rec)
	}
}

func (c *Ctx) mutate(base []byte) []byte {
	b := append([]byte{}, base...)
	for k := 0; k < 1+c.Rng.IntN(3); k++ {
		if len(b) == 0 {
			break
		}
		i := c.Rng.IntN(len(b))
		switch c.Rng.IntN(7) {
		case 0:
			b = b[:i] // truncate
		case 1:
			b[i] = []byte{'"', ',', '\n', '\r', 0, 0xff, '[', ']', '{', '}', ':'}[c.Rng.IntN(11)]
		case 2:
			b = append(b[:i], append([]byte{'"'}, b[i:]...)...)
		case 3:
			b = append(b[:i], append([]byte(",extra"), b[i:]...)...)
		case 4:
			j := i + c.Rng.IntN(len(b)-i)
			b = append(b[:i], b[j:]...)
		case 5:
			b = append(b, b[i:]...)
		default:
			b[i] ^= byte(1 << c.Rng.IntN(8))
		}
	}
	return b
}

// reshapeJSON keeps the body valid JSON but gives it the wrong shape: one to three nodes of the parsed value (an array element, a field
// value, or the whole document) are replaced by another JSON value (null, a number, a string, a boolean, an array, an object), a field is
// dropped, or a null / scalar element is inserted into an array. Byte-level mutation almost never produces these.
func (c *Ctx) reshapeJSON(base []byte) []byte {
	var doc any
	if json.Unmarshal(base, &doc) != nil {
		return base
	}
	pool := func() any {
		switch c.Rng.IntN(9) {
		case 0, 1:
			return nil
		case 2:
			return float64(c.Rng.IntN(7)) - 3
		case 3:
			return "x"
		case 4:
			return true
		case 5:
			return []any{}
		case 6:
			return []any{nil, 1.5}
		case 7:
			return map[string]any{}
		default:
			return map[string]any{"date": nil, "close": "1", "name": 3, "v": []any{}}
		}
	}
	var edit func(v any, depth int) any
	edit = func(v any, depth int) any {
		switch t := v.(type) {
		case []any:
			if len(t) == 0 || c.Rng.IntN(4) == 0 {
				i := c.Rng.IntN(len(t) + 1)
				return append(append(append([]any{}, t[:i]...), pool()), t[i:]...)
			}
			i := c.Rng.IntN(len(t))
			if depth < 3 && c.Rng.IntN(2) == 0 {
				t[i] = edit(t[i], depth+1)
			} else {
				t[i] = pool()
			}
			return t
		case map[string]any:
			keys := make([]string, 0, len(t))
			for k := range t {
				keys = append(keys, k)
			}
			sort.Strings(keys)
			if len(keys) == 0 {
				return pool()
			}
			k := keys[c.Rng.IntN(len(keys))]
			if c.Rng.IntN(5) == 0 {
				delete(t, k)
			} else {
				t[k] = pool()
			}
			return t
		default:
			return pool()
		}
	}
	for k := 0; k < 1+c.Rng.IntN(3); k++ {
		if c.Rng.IntN(12) == 0 {
			doc = pool()
		} else {
			doc = edit(doc, 0)
		}
	}
	out, err := json.Marshal(doc)
	if err != nil {
		return base
	}
	return out
}

func (c *Ctx) c19Csv(shape string, header bool, data []byte) {
	job := c19Job{Kind: "csv-" + shape, Header: header, Data: data}
	res, panicked, raw := runChild(job)
	in := map[string]any{"kind": job.Kind, "header": header, "data": string(data), "data_hex": fmt.Sprintf("%x", data)}
	c.Count("csv/" + shape)
	if panicked {
		c.Count("outcome/process-died")
	}
	if shape == "str3" {
		evs, _, _ := csvEvents(data)
		ending := "Closed"
		if panicked {
			ending = "Panicked"
		}
		rows := make([]string, len(res.Rows))
		for i, r := range res.Rows {
			rows[i] = coqListS(strings.Split(r, "\x1f"))
		}
		if !panicked && !res.Closed {
			c.Direct(Violation{Subject: "helper.Csv.ReadFromReader", Kind: "hang", Detail: "the row stream never closed", Input: in})
			return
		}
		if !panicked && res.Goroutines > 0 {
			c.Direct(Violation{Subject: "helper.Csv.ReadFromReader", Kind: "spec", Detail: fmt.Sprintf("%d library goroutines left after the stream closed", res.Goroutines), Input: in})
		}
		c.AddCase(fmt.Sprintf("CGlue %s %s %s %s", coqBool(header), evs, coqList(rows), ending),
			CaseInfo{Subject: "helper.Csv.ReadFromReader", Desc: fmt.Sprintf("str3 header=%v %d bytes -> %d rows, died=%v", header, len(data), len(res.Rows), panicked), Input: in}, len(data) > 0)
		return
	}
	c.Meta.Evaluations++
	if panicked {
		c.Direct(Violation{Subject: "helper.Csv.ReadFromReader", Kind: "spec", Detail: "the process died: " + firstLine(raw), Input: in})
	} else if !res.Closed {
		c.Direct(Violation{Subject: "helper.Csv.ReadFromReader", Kind: "hang", Detail: "the row stream never closed", Input: in})
	} else if res.Goroutines > 0 {
		c.Direct(Violation{Subject: "helper.Csv.ReadFromReader", Kind: "spec", Detail: fmt.Sprintf("%d library goroutines left", res.Goroutines), Input: in})
	}
}

func firstLine(s string) string {
	for _, l := range strings.Split(s, "\n") {
		if strings.HasPrefix(l, "panic:") || strings.HasPrefix(l, "fatal error:") {
			return l
		}
	}
	if i := strings.Index(s, "\n"); i > 0 {
		return s[:i]
	}
	return s
}

// jsonPrefix: the elements of the well-formed prefix of a JSON array of T, decoded with encoding/json directly.
func jsonPrefix[T any](data []byte, show func(T) string) []string {
	dec := json.NewDecoder(bytes.NewReader(data))
	tok, err := dec.Token()
	if err != nil || tok != json.Delim('[') {
		return nil
	}
	var out []string
	for dec.More() {
		var v T
		if err := dec.Decode(&v); err != nil {
			break
		}
		out = append(out, show(v))
	}
	return out
}

func (c *Ctx) c19Json(kind string, data []byte) {
	res, panicked, raw := runChild(c19Job{Kind: kind, Data: data})
	in := map[string]any{"kind": kind, "data": string(data), "data_hex": fmt.Sprintf("%x", data)}
	c.Count(kind)
	c.Meta.Evaluations++
	var want []string
	if kind == "json-int" {
		want = jsonPrefix(data, func(v int) string { return fmt.Sprint(v) })
	} else {
		want = jsonPrefix(data, func(v jrec2) string { return fmt.Sprintf("%s\x1f%v", v.Name, v.V) })
	}
	switch {
	case panicked:
		c.Direct(Violation{Subject: "helper.JSONToChan", Kind: "spec", Detail: "the process died: " + firstLine(raw), Input: in})
	case !res.Closed:
		c.Direct(Violation{Subject: "helper.JSONToChan", Kind: "hang", Detail: "the stream never closed", Input: in})
	case strings.Join(res.Rows, "\x1e") != strings.Join(want, "\x1e"):
		c.Direct(Violation{Subject: "helper.JSONToChan", Kind: "spec", Detail: fmt.Sprintf("delivered %d values, the well-formed prefix has %d", len(res.Rows), len(want)), Input: in})
	case res.Goroutines > 0:
		c.Direct(Violation{Subject: "helper.JSONToChan", Kind: "spec", Detail: fmt.Sprintf("%d library goroutines left", res.Goroutines), Input: in})
	}
}

func (c *Ctx) c19Tiingo(status int, body []byte) {
	res, panicked, raw := runChild(c19Job{Kind: "tiingo", Status: status, Data: body})
	in := map[string]any{"kind": "tiingo", "status": status, "body": string(body)}
	c.Count(fmt.Sprintf("tiingo/status-%d", status))
	c.Meta.Evaluations++
	switch {
	case panicked:
		c.Direct(Violation{Subject: "asset.TiingoRepository", Kind: "spec", Detail: "the process died: " + firstLine(raw), Input: in})
	case !res.Closed:
		c.Direct(Violation{Subject: "asset.TiingoRepository", Kind: "hang", Detail: "the snapshot stream never closed", Input: in})
	case status != 200 && res.Err == "":
		c.Direct(Violation{Subject: "asset.TiingoRepository", Kind: "spec", Detail: fmt.Sprintf("HTTP status %d surfaced as a success", status), Input: in})
	case res.Goroutines > 0:
		c.Direct(Violation{Subject: "asset.TiingoRepository", Kind: "spec", Detail: fmt.Sprintf("%d library goroutines left after the stream closed", res.Goroutines), Input: in})
	}
}

func runC19(c *Ctx) error {
	c.header = "From Coq Require Import ZArith List String.\nImport ListNotations.\nFrom Verif Require Import Codec.Csv Codec.Glue Run.C19Run.\n"
	c.perFile = 150
	c.Meta.Rule = "byte strings = structured mutations (truncation, byte flips, stray quotes / separators / brackets, deleted and duplicated spans, extra fields) of valid CSV files " +
		"(with and without header; an all-string struct and a typed struct with int and float fields), of JSON arrays (ints, objects) and of Tiingo responses, plus raw random bytes; " +
		"HTTP statuses 200, 204, 301, 400, 401, 404, 429, 500, 503; a missing file. Each input runs in its own child process: delivered rows, closure under a 3 s watchdog, process " +
		"survival, census of library goroutines. Oracle: all-string CSV -> Coq model of the glue over the events of encoding/csv; JSON -> the well-formed prefix decoded with encoding/json directly."
	if c.Replay != "" {
		var in struct {
			Kind   string `json:"kind"`
			Header bool   `json:"header"`
			Hex    string `json:"data_hex"`
			Status int    `json:"status"`
			Body   string `json:"body"`
		}
		if err := readReplayInput(c.Replay, &in); err != nil {
			return err
		}
		var data []byte
		fmt.Sscanf(in.Hex, "%x", &data)
		switch {
		case strings.HasPrefix(in.Kind, "csv-"):
			c.c19Csv(strings.TrimPrefix(in.Kind, "csv-"), in.Header, data)
		case strings.HasPrefix(in.Kind, "json-"):
			c.c19Json(in.Kind, data)
		case in.Kind == "tiingo":
			c.c19Tiingo(in.Status, []byte(in.Body))
		}
		return nil
	}
	validStr := []byte("A,B,C\nx,y,z\n\"q,1\",\"line\nbreak\",w\n1,2,3\n")
	validTyped := []byte("N,F,S\n1,2.5,abc\n-7,1e3,\"x,y\"\n0,0,\n")
	n := c.N(120, 1200)
	for i := 0; i < n; i++ {
		hdr := c.Rng.IntN(2) == 0
		base := validStr
		if !hdr {
			base = validStr[6:]
		}
		data := c.mutate(base)
		switch c.Rng.IntN(10) {
		case 0: // short rows without header
			data = []byte([]string{"x\n", "x,y\n", "a,b\nc\n", "\n", "a,b,c,d\n1,2\n"}[c.Rng.IntN(5)])
		case 1:
			data = make([]byte, c.Rng.IntN(40))
			for j := range data {
				data[j] = byte(c.Rng.IntN(256))
			}
		case 2:
			data = base
		}
		c.c19Csv("str3", hdr, data)
		if i%3 == 0 {
			tb := validTyped
			if !hdr {
				tb = validTyped[6:]
			}
			c.c19Csv("typed", hdr, c.mutate(tb))
		}
	}
	validInts := []byte("[1, 2, 3, 40, -5]")
	validRecs := []byte(`[{"name":"a","v":1.5},{"name":"b","v":-2},{"name":"c","v":0}]`)
	for i := 0; i < c.N(60, 600); i++ {
		d := c.mutate(validInts)
		if c.Rng.IntN(8) == 0 {
			d = []byte([]string{"", "{}", "null", "1", "[", "[1,", "[1 2]", "\"x\"", "[1,\"a\",3]", "[[1],2]", "[1.5]", "]"}[c.Rng.IntN(12)])
		}
		c.c19Json("json-int", d)
		c.c19Json("json-rec", c.mutate(validRecs))
		if i%2 == 0 { // valid JSON of the wrong shape
			c.Count("shape/json-reshaped")
			c.c19Json("json-int", c.reshapeJSON(validInts))
			c.c19Json("json-rec", c.reshapeJSON(validRecs))
		}
	}
	validTiingo := []byte(`[{"date":"2020-01-02T00:00:00.000Z","close":300.35,"high":300.6,"low":295.19,"open":296.24,"volume":33911864,"adjClose":297.43,"adjHigh":297.68,"adjLow":292.32,"adjOpen":293.36,"adjVolume":135647456,"divCash":0.0,"splitFactor":1.0},{"date":"2020-01-03T00:00:00.000Z","close":297.43,"high":300.58,"low":296.5,"open":297.15,"volume":36633878,"adjClose":294.54,"adjHigh":297.66,"adjLow":293.62,"adjOpen":294.26,"adjVolume":146535512,"divCash":0.0,"splitFactor":1.0}]`)
	statuses := []int{200, 200, 200, 204, 301, 400, 401, 404, 429, 500, 503}
	for i := 0; i < c.N(40, 400); i++ {
		st := statuses[c.Rng.IntN(len(statuses))]
		body := validTiingo
		if c.Rng.IntN(3) != 0 {
			body = c.mutate(validTiingo)
		}
		if c.Rng.IntN(8) == 0 {
			body = []byte([]string{"", "{}", "{\"detail\":\"Not found.\"}", "[", "[{\"date\":", "null", "[{\"date\":\"2020-01-02T00:00:00.000Z\"}", "[{\"date\":\"2020-01-02T00:00:00.000Z\"},"}[c.Rng.IntN(8)])
		}
		c.c19Tiingo(st, body)
		if i%2 == 0 { // a 200 response that is valid JSON of the wrong shape (null / scalar / nested elements, missing or mistyped fields)
			c.Count("shape/tiingo-reshaped")
			c.c19Tiingo(200, c.reshapeJSON(validTiingo))
		}
	}
	// an unreadable file must surface as an error
	res, panicked, _ := runChild(c19Job{Kind: "file", Data: []byte("/nonexistent/verif/file.csv")})
	c.Meta.Evaluations++
	if panicked || res.Err == "" {
		c.Direct(Violation{Subject: "helper.ReadFromCsvFile", Kind: "spec", Detail: "a missing file did not surface as an error", Input: map[string]any{"kind": "file"}})
	}
	return nil
}
