// C05: one action per snapshot, Hold through the warm-up. Every strategy type (base, compound, decorated, nested)
// x sampled configurations x every snapshot count n in [0, 2w+2].
package main

import (
	"fmt"
	"os"
	"strings"
	"time"
)

func init() { registry["C05"] = runC05 }

type stratInput struct {
	Type   string         `json:"type"`
	Spec   Spec           `json:"spec"`
	Cfg    string         `json:"coq_cfg"`
	Warm   string         `json:"coq_warmup"`
	N      int            `json:"n"`
	Bars   map[string]any `json:"bars"`
	Acts   []int64        `json:"observed_actions"`
	Hung   bool           `json:"hung"`
	Regime string         `json:"regime"`
}

// atF applies a generated definition with its element type instantiated at binary64 when that type is one of its
// (implicit) parameters; definitions that do not mention T have no such parameter.
func atF(name, args string) string {
	return fmt.Sprintf("ltac:(first [exact (%s (T:=float) %s) | exact (%s %s)])", name, args, name, args)
}

func coqIface(typeKey string) string {
	return strings.ReplaceAll(strings.ReplaceAll(typeKey, "/", "_"), ".", "_")
}

// warmTerm is the Coq term of the warm-up of a strategy configuration: the Shift a base strategy applies
// to its actions; the minimum over the wrapped strategies for And/Or/Majority/Split/MacdRsi; the inner
// strategy's for decorators (mirrors the definitions the theorems of Props/C05.v are stated with).
func warmTerm(sp *Spec) (string, error) { return warmTermWith(sp, "Z.min") }

// warmTermWith: comb = "Z.min" for the action contract (C05), "Z.max" for reports (C14: every column of every wrapped
// strategy is past its own warm-up).
func warmTermWith(sp *Spec, comb string) (string, error) {
	gc := genCtors[sp.Ctor]
	_, cfg, err := sp.Build()
	if err != nil {
		return "", err
	}
	switch gc.Returns {
	case "strategy.AndStrategy", "strategy.OrStrategy", "strategy.MajorityStrategy":
		var subs []string
		for _, a := range sp.Args {
			for k := range a.List {
				w, err := warmTermWith(&a.List[k], comb)
				if err != nil {
					return "", err
				}
				subs = append(subs, w)
			}
		}
		if len(subs) == 0 {
			return "0%Z", nil
		}
		t := subs[0]
		for _, w := range subs[1:] {
			t = fmt.Sprintf("(%s %s %s)", comb, t, w)
		}
		return t, nil
	case "strategy.SplitStrategy":
		a, err := warmTermWith(sp.Args[0].Sub, comb)
		if err != nil {
			return "", err
		}
		b, err := warmTermWith(sp.Args[1].Sub, comb)
		if err != nil {
			return "", err
		}
		return fmt.Sprintf("(%s %s %s)", comb, a, b), nil
	case "strategy/decorator.InverseStrategy", "strategy/decorator.NoLossStrategy", "strategy/decorator.StopLossStrategy":
		return warmTermWith(sp.Args[0].Sub, comb)
	case "strategy/compound.MacdRsiStrategy":
		return fmt.Sprintf("(let m_ := %s in "+comb+" (warm_of %s) (warm_of %s))", cfg,
			atF("strategy_trend_MacdStrategy_Compute", "(strategy_compound_MacdRsiStrategy_MacdStrategy m_)"),
			atF("strategy_momentum_RsiStrategy_Compute", "(strategy_compound_MacdRsiStrategy_RsiStrategy m_)")), nil
	}
	return fmt.Sprintf("(warm_of %s)", atF(genTypes[gc.Returns].Coq+"_Compute", cfg)), nil
}

// defectiveTypes (VERIF_DEFECTIVE=type,type,... set by bin/vcheck from the open known findings): strategies recorded as
// violating their own contract. They are still checked as subjects of their own; a wrapper around one of them is out of
// the scope of the wrapper theorems (which assume the wrapped strategies keep the contract).
var defectiveTypes = func() map[string]bool {
	m := map[string]bool{}
	for _, k := range strings.Split(os.Getenv("VERIF_DEFECTIVE"), ",") {
		if k = strings.TrimSpace(k); k != "" {
			m[k] = true
		}
	}
	return m
}()

// admTermRec is the Coq term deciding whether a (possibly nested) strategy configuration is in scope: every base
// strategy admissible, votes over k >= 1 strategies, no recorded-defective strategy below a wrapper.
func admTermRec(sp *Spec, depth int) (string, error) {
	gc := genCtors[sp.Ctor]
	_, cfg, err := sp.Build()
	if err != nil {
		return "", err
	}
	all := func(subs []*Spec) (string, error) {
		if len(subs) == 0 {
			return "false", nil
		}
		t := "true"
		for _, x := range subs {
			a, err := admTermRec(x, depth+1)
			if err != nil {
				return "", err
			}
			t = fmt.Sprintf("(andb %s %s)", t, a)
		}
		return t, nil
	}
	switch gc.Returns {
	case "strategy.AndStrategy", "strategy.OrStrategy", "strategy.MajorityStrategy":
		var subs []*Spec
		for i := range sp.Args {
			for k := range sp.Args[i].List {
				subs = append(subs, &sp.Args[i].List[k])
			}
		}
		return all(subs)
	case "strategy.SplitStrategy":
		return all([]*Spec{sp.Args[0].Sub, sp.Args[1].Sub})
	case "strategy/decorator.InverseStrategy", "strategy/decorator.NoLossStrategy", "strategy/decorator.StopLossStrategy":
		return all([]*Spec{sp.Args[0].Sub})
	}
	if depth > 0 && defectiveTypes[gc.Returns] {
		return "false", nil
	}
	name := "adm_" + genTypes[gc.Returns].Coq
	return fmt.Sprintf("(%s (I:=snap) (T:=float) %s)", name, cfg), nil
}

func (c *Ctx) stratCaseWith(typeKey string, sp Spec, b Bars, reg string) (int, bool) {
	t := genTypes[typeKey]
	inst, cfg, err := sp.Build()
	if err != nil {
		panic(err)
	}
	warm, err := warmTerm(&sp)
	if err != nil {
		panic(err)
	}
	adm, err := admTermRec(&sp, 0)
	if err != nil {
		panic(err)
	}
	acts, hung := runStrategy(inst, b, time.Second)
	if hung { // confirm with a generous limit: a loaded machine must not look like a deadlock
		acts, hung = runStrategy(inst, b, 4*time.Second)
	}
	n := len(b.Close)
	term := fmt.Sprintf("(let c_ := %s in CStrat %s %s %s %s %s %s)", cfg, atF(t.Coq+"_Compute", "c_ (EIn 0)"), warm, adm, coqBars(b), coqListZ(acts), coqBool(hung))
	c.Count("type/" + typeKey)
	c.Count("regime/" + reg)
	c.Count(fmt.Sprintf("n<=%d", bucket(n)))
	c.AddCase(term, CaseInfo{Subject: typeKey, Desc: fmt.Sprintf("%s n=%d actions=%d hung=%v", cfg, n, len(acts), hung),
		Input: stratInput{Type: typeKey, Spec: sp, Cfg: cfg, Warm: warm, N: n, Bars: barsJSON(b), Acts: acts, Hung: hung, Regime: reg}}, n > 0)
	return len(acts), hung
}

func barsFromJSON(m map[string]any) Bars {
	col := func(k string) []float64 {
		raw, _ := m[k].([]any)
		out := make([]string, len(raw))
		for i, x := range raw {
			out[i], _ = x.(string)
		}
		return parseF(out)
	}
	b := Bars{Open: col("open"), High: col("high"), Low: col("low"), Close: col("close"), Volume: col("volume")}
	raw, _ := m["day"].([]any)
	for _, x := range raw {
		f, _ := x.(float64)
		b.Day = append(b.Day, int64(f))
	}
	return b
}

func runC05(c *Ctx) error {
	c.header = fmt.Sprintf(flowHeader, "Run.C05Run")
	c.perFile = 120
	c.Meta.Rule = "every strategy type of the generated registry (35 base strategies, And/Or/Majority/Split/MacdRsi, Inverse/NoLoss/StopLoss; wrappers over random, " +
		"possibly nested, sub-strategies) x sampled configurations x every snapshot count n in [0, 2w+2] (w measured as the number of actions emitted for n = 0, " +
		"else 12) plus longer ones; valid OHLCV in several regimes. Observable: the action sequence. Oracle (evaluated in Coq): n >= w -> exactly n actions, first w Hold, " +
		"alphabet {-1,0,1}; n < w -> only Holds, at least n."
	if c.Replay != "" {
		var in stratInput
		if err := readReplayInput(c.Replay, &in); err != nil {
			return err
		}
		c.stratCaseWith(in.Type, in.Spec, barsFromJSON(in.Bars), in.Regime)
		return nil
	}
	cfgs := c.N(2, 8)
	for _, typeKey := range typeKeys("strategy") {
		for k := 0; k < cfgs; k++ {
			sp := c.randSpec(typeKey, 6, 0, k > 0)
			w0, hung := c.stratCaseWith(typeKey, sp, Bars{}, "empty")
			if hung {
				continue
			}
			if w0 == 0 {
				w0 = 12
			}
			top := 2*w0 + 2
			if lim := c.N(30, 90); top > lim {
				top = lim
			}
			for n := 1; n <= top; n++ {
				b, reg := c.randBars(n)
				if _, hung := c.stratCaseWith(typeKey, sp, b, reg); hung {
					break
				}
			}
			b, reg := c.randBars(top + 5 + c.Rng.IntN(30))
			c.stratCaseWith(typeKey, sp, b, reg)
		}
	}
	return nil
}
