// Generic machinery for the dataflow properties (C01, C02, C04, C05, C06, C14, C15, C18): build a
// configuration both as a Go value (reflection over the constructors listed in gen_registry.go) and
// as a Coq term of the generated model, run Compute on generated series, collect every output.
package main

import (
	"fmt"
	"math"
	"os"
	"reflect"
	"sort"
	"strings"
	"time"

	"github.com/cinar/indicator/v2/asset"
	"github.com/cinar/indicator/v2/helper"
)

type genCtor struct {
	Coq     string
	Fn      reflect.Value
	Params  []string
	Returns string
}

type genType struct {
	Coq       string
	Kind      string
	Inputs    int
	Outputs   int
	HasIdle   bool
	HasReport bool
	Ifaces    []string
	InNames   []string
}

// Spec is a configuration: a constructor call tree plus assignments to exported fields.
type Spec struct {
	Ctor string    `json:"ctor"`
	Args []SpecArg `json:"args,omitempty"`
	Sets []SpecSet `json:"sets,omitempty"`
}

// SpecArg is one constructor argument.
type SpecArg struct {
	Int   *int64   `json:"int,omitempty"`
	Float *float64 `json:"float,omitempty"`
	Str   *string  `json:"str,omitempty"`
	Sub   *Spec    `json:"sub,omitempty"`
	List  []Spec   `json:"list,omitempty"`
}

// SpecSet assigns an exported int or float field reached through exported pointer fields.
type SpecSet struct {
	Path  string   `json:"path"`
	Int   *int64   `json:"int,omitempty"`
	Float *float64 `json:"float,omitempty"`
}

func ctorsOf(typeKey string) []string {
	var out []string
	for k, c := range genCtors {
		if c.Returns == typeKey {
			out = append(out, k)
		}
	}
	sort.Strings(out)
	return out
}

// focusTypes (VERIF_FOCUS=type,type,...) restricts a run to the listed types: the search for a failing input after a
// proof obligation or a model/source tie broke concentrates its budget on what changed.
var focusTypes = func() map[string]bool {
	v := os.Getenv("VERIF_FOCUS")
	if v == "" {
		return nil
	}
	m := map[string]bool{}
	for _, k := range strings.Split(v, ",") {
		m[strings.TrimSpace(k)] = true
	}
	return m
}()

// typesWithoutConstructor: types the translator could not give a constructor (it reports them as failed and bin/vcheck treats
// that as a broken tie); the harness leaves them out instead of stopping.
var typesWithoutConstructor []string

func typeKeys(kind string) []string {
	var out []string
	for k, t := range genTypes {
		if t.Kind == kind && (focusTypes == nil || focusTypes[k]) {
			if len(ctorsOf(k)) == 0 {
				found := false
				for _, x := range typesWithoutConstructor {
					found = found || x == k
				}
				if !found {
					typesWithoutConstructor = append(typesWithoutConstructor, k)
				}
				continue
			}
			out = append(out, k)
		}
	}
	sort.Strings(out)
	return out
}

// maTypes are the implementations of trend.Ma the harness plugs into interface-typed parameters.
var maTypes = []string{"trend.Sma", "trend.Ema", "trend.Smma", "trend.Wma", "trend.Hma", "trend.Kama"}

func coqTypeName(t reflect.Type) string {
	for t.Kind() == reflect.Ptr {
		t = t.Elem()
	}
	pkg := t.PkgPath()
	pkg = strings.TrimPrefix(pkg, "github.com/cinar/indicator/v2/")
	name := t.Name()
	if i := strings.Index(name, "["); i >= 0 {
		name = name[:i]
	}
	return strings.ReplaceAll(pkg, "/", "_") + "_" + name
}

// Build returns the Go value and the Coq term of a specification.
func (s *Spec) Build() (reflect.Value, string, error) {
	c, ok := genCtors[s.Ctor]
	if !ok {
		return reflect.Value{}, "", fmt.Errorf("unknown constructor %s", s.Ctor)
	}
	ft := c.Fn.Type()
	if len(s.Args) != len(c.Params) {
		return reflect.Value{}, "", fmt.Errorf("%s: %d args for %d params", s.Ctor, len(s.Args), len(c.Params))
	}
	var in []reflect.Value
	term := c.Coq
	for i, p := range c.Params {
		a := s.Args[i]
		switch {
		case p == "int":
			in = append(in, reflect.ValueOf(int(*a.Int)))
			term += " " + coqZ(*a.Int)
		case p == "float":
			in = append(in, reflect.ValueOf(*a.Float))
			term += " " + coqF(*a.Float)
		case p == "string":
			in = append(in, reflect.ValueOf(*a.Str))
			term += fmt.Sprintf(" %q%%string", *a.Str)
		case strings.HasPrefix(p, "ptr:"):
			v, t, err := a.Sub.Build()
			if err != nil {
				return reflect.Value{}, "", err
			}
			in = append(in, v)
			term += " " + t
		case strings.HasPrefix(p, "iface:"):
			v, t, err := a.Sub.Build()
			if err != nil {
				return reflect.Value{}, "", err
			}
			in = append(in, v)
			iface := strings.ReplaceAll(strings.ReplaceAll(strings.TrimPrefix(p, "iface:"), "/", "_"), ".", "_")
			term += fmt.Sprintf(" (%s_as_%s %s)", coqTypeName(v.Type()), iface, t)
		case strings.HasPrefix(p, "slice:iface:"), strings.HasPrefix(p, "variadic:iface:"):
			iface := strings.ReplaceAll(strings.ReplaceAll(p[strings.Index(p, "iface:")+6:], "/", "_"), ".", "_")
			var items []string
			var vals []reflect.Value
			for k := range a.List {
				v, t, err := a.List[k].Build()
				if err != nil {
					return reflect.Value{}, "", err
				}
				vals = append(vals, v)
				items = append(items, fmt.Sprintf("(%s_as_%s %s)", coqTypeName(v.Type()), iface, t))
			}
			term += " " + coqList(items)
			if strings.HasPrefix(p, "variadic:") {
				in = append(in, vals...)
			} else {
				sl := reflect.MakeSlice(ft.In(i), 0, len(vals))
				for _, v := range vals {
					sl = reflect.Append(sl, v)
				}
				in = append(in, sl)
			}
		default:
			return reflect.Value{}, "", fmt.Errorf("unsupported parameter kind %s", p)
		}
	}
	// interface-typed parameters need the value converted to the parameter type
	for i := range in {
		var pt reflect.Type
		if ft.IsVariadic() && i >= ft.NumIn()-1 {
			pt = ft.In(ft.NumIn() - 1).Elem()
		} else {
			pt = ft.In(i)
		}
		if pt.Kind() == reflect.Interface && in[i].Type() != pt {
			nv := reflect.New(pt).Elem()
			nv.Set(in[i])
			in[i] = nv
		}
	}
	out := c.Fn.Call(in)
	val := out[0]
	if len(c.Params) > 0 {
		term = "(" + term + ")"
	}
	for _, st := range s.Sets {
		var err error
		term, err = applySet(val, term, st)
		if err != nil {
			return reflect.Value{}, "", err
		}
	}
	return val, term, nil
}

// applySet assigns val.<path> and returns the Coq term of the updated record.
func applySet(val reflect.Value, term string, st SpecSet) (string, error) {
	parts := strings.Split(st.Path, ".")
	cur := val
	type step struct {
		tname, field string
	}
	var steps []step
	for i, f := range parts {
		for cur.Kind() == reflect.Ptr || cur.Kind() == reflect.Interface {
			cur = cur.Elem()
		}
		if cur.Kind() != reflect.Struct {
			return "", fmt.Errorf("set %s: not a struct at %s", st.Path, f)
		}
		tn := coqTypeName(cur.Type())
		fv := cur.FieldByName(f)
		if !fv.IsValid() || !fv.CanSet() {
			return "", fmt.Errorf("set %s: no settable field %s", st.Path, f)
		}
		steps = append(steps, step{tn, f})
		if i == len(parts)-1 {
			switch {
			case st.Int != nil && fv.Kind() == reflect.Int:
				fv.SetInt(*st.Int)
			case st.Float != nil && fv.Kind() == reflect.Float64:
				fv.SetFloat(*st.Float)
			default:
				return "", fmt.Errorf("set %s: kind mismatch", st.Path)
			}
		}
		cur = fv
	}
	leaf := ""
	if st.Int != nil {
		leaf = coqZ(*st.Int)
	} else {
		leaf = coqF(*st.Float)
	}
	// (let x := term in set_A_f x (set_B_g (A_f x) leaf))
	var build func(i int, base string) string
	build = func(i int, base string) string {
		s := steps[i]
		if i == len(steps)-1 {
			return fmt.Sprintf("(set_%s_%s %s %s)", s.tname, s.field, base, leaf)
		}
		inner := fmt.Sprintf("(%s_%s %s)", s.tname, s.field, base)
		return fmt.Sprintf("(set_%s_%s %s %s)", s.tname, s.field, base, build(i+1, inner))
	}
	return "(let x_ := " + term + " in " + build(0, "x_") + ")", nil
}

// ---- random specifications -----------------------------------------------------------------------

var floatPool = []float64{0.01, 0.03, 0.1, 0.5, 1, 2, 2.5, 3, 10, 20, 30, 50, 70, 80}

func (c *Ctx) randPeriod(maxP int) int64 {
	if c.Rng.IntN(6) == 0 {
		return 1
	}
	return int64(1 + c.Rng.IntN(maxP))
}

func (c *Ctx) randSpec(typeKey string, maxP, depth int, vary bool) Spec {
	cs := ctorsOf(typeKey)
	if len(cs) == 0 {
		panic("no constructor for " + typeKey)
	}
	// prefer constructors with parameters when varying
	pick := cs[c.Rng.IntN(len(cs))]
	if vary {
		var with []string
		for _, k := range cs {
			if len(genCtors[k].Params) > 0 {
				with = append(with, k)
			}
		}
		if len(with) > 0 && c.Rng.IntN(4) != 0 {
			pick = with[c.Rng.IntN(len(with))]
		}
	}
	if depth > 0 && pick == "strategy.NewMajorityStrategy" {
		// a vote over no strategies emits Hold for ever and never closes (DESIGN 7.4, observations): not a sub-strategy any
		// wrapper can be exercised over, and not representable as a finite stream in the model
		pick = "strategy.NewMajorityStrategyWith"
	}
	gc := genCtors[pick]
	sp := Spec{Ctor: pick}
	var ints []*int64
	for _, p := range gc.Params {
		var a SpecArg
		switch {
		case p == "int":
			v := c.randPeriod(maxP)
			a.Int = &v
			ints = append(ints, a.Int)
		case p == "float":
			v := floatPool[c.Rng.IntN(len(floatPool))]
			a.Float = &v
		case p == "string":
			v := "s"
			a.Str = &v
		case strings.HasPrefix(p, "ptr:"):
			sub := c.randSpec(strings.TrimPrefix(p, "ptr:"), maxP, depth+1, vary)
			a.Sub = &sub
		case p == "iface:trend.Ma":
			sub := c.randSpec(maTypes[c.Rng.IntN(len(maTypes))], maxP, depth+1, vary)
			a.Sub = &sub
		case p == "iface:strategy.Strategy":
			sub := c.randStrategySpec(maxP, depth+1)
			a.Sub = &sub
		case strings.HasSuffix(p, "iface:strategy.Strategy"):
			k := 1 + c.Rng.IntN(3)
			for i := 0; i < k; i++ {
				a.List = append(a.List, c.randStrategySpec(maxP, depth+1))
			}
		default:
			panic("unsupported parameter kind " + p)
		}
		sp.Args = append(sp.Args, a)
	}
	if len(ints) > 1 && c.Rng.IntN(10) < 6 { // ordering constraints such as fast <= slow
		vals := make([]int64, len(ints))
		for i, p := range ints {
			vals[i] = *p
		}
		sort.Slice(vals, func(i, j int) bool { return vals[i] < vals[j] })
		for i, p := range ints {
			*p = vals[i]
		}
	}
	if vary && depth == 0 {
		// assign exported period fields
		v, _, err := sp.Build()
		if err == nil {
			paths := periodPaths(v, "", 0)
			sort.Strings(paths)
			for _, pth := range paths {
				if c.Rng.IntN(2) == 0 {
					x := c.randPeriod(maxP)
					sp.Sets = append(sp.Sets, SpecSet{Path: pth, Int: &x})
				}
			}
			// same-period groups that the documentation ties together (moving min/max pairs)
			if c.Rng.IntN(10) < 7 {
				tieSets(&sp, paths)
			}
		}
	}
	return sp
}

// tieSets gives all Min/Max period fields of one configuration the same value most of the time.
func tieSets(sp *Spec, paths []string) {
	var common *int64
	for i := range sp.Sets {
		p := sp.Sets[i].Path
		if strings.Contains(p, "Max") || strings.Contains(p, "Min") {
			if common == nil {
				common = sp.Sets[i].Int
			} else {
				v := *common
				sp.Sets[i].Int = &v
			}
		}
	}
	if common == nil {
		return
	}
	have := map[string]bool{}
	for _, s := range sp.Sets {
		have[s.Path] = true
	}
	for _, p := range paths {
		if (strings.Contains(p, "Max") || strings.Contains(p, "Min")) && !have[p] {
			v := *common
			sp.Sets = append(sp.Sets, SpecSet{Path: p, Int: &v})
		}
	}
}

func periodPaths(v reflect.Value, prefix string, depth int) []string {
	for v.Kind() == reflect.Ptr || v.Kind() == reflect.Interface {
		if v.IsNil() {
			return nil
		}
		v = v.Elem()
	}
	if v.Kind() != reflect.Struct || depth > 2 {
		return nil
	}
	var out []string
	t := v.Type()
	for i := 0; i < t.NumField(); i++ {
		f := t.Field(i)
		if !f.IsExported() {
			continue
		}
		fv := v.Field(i)
		switch fv.Kind() {
		case reflect.Int:
			out = append(out, prefix+f.Name)
		case reflect.Ptr:
			out = append(out, periodPaths(fv, prefix+f.Name+".", depth+1)...)
		}
	}
	return out
}

var baseStrategyPkgs = []string{"strategy/trend.", "strategy/momentum.", "strategy/volatility.", "strategy/volume."}

func baseStrategyTypes() []string {
	var out []string
	for _, k := range typeKeys("strategy") {
		for _, p := range baseStrategyPkgs {
			if strings.HasPrefix(k, p) {
				out = append(out, k)
			}
		}
	}
	out = append(out, "strategy.BuyAndHoldStrategy")
	sort.Strings(out)
	return out
}

var wrapperStrategyTypes = []string{"strategy.AndStrategy", "strategy.OrStrategy", "strategy.MajorityStrategy", "strategy.SplitStrategy",
	"strategy/compound.MacdRsiStrategy", "strategy/decorator.InverseStrategy", "strategy/decorator.NoLossStrategy", "strategy/decorator.StopLossStrategy"}

// randStrategySpec picks a sub-strategy for a wrapper: mostly base strategies, sometimes (one level deep) another wrapper.
func (c *Ctx) randStrategySpec(maxP, depth int) Spec {
	if depth <= 1 && c.Rng.IntN(4) == 0 {
		return c.randSpec(wrapperStrategyTypes[c.Rng.IntN(len(wrapperStrategyTypes))], maxP, depth, true)
	}
	bs := baseStrategyTypes()
	return c.randSpec(bs[c.Rng.IntN(len(bs))], maxP, depth, true)
}

// ---- series generators ---------------------------------------------------------------------------

// Bars is an OHLCV series with whole-day dates.
type Bars struct {
	Open, High, Low, Close, Volume []float64
	Day                            []int64
}

func grid(x float64) float64 { return math.Round(x*64) / 64 }

// randBars generates a valid OHLCV series (low <= open, close <= high, positive prices) on a dyadic
// grid, in one of several regimes.
func (c *Ctx) randBars(n int) (Bars, string) {
	regimes := []string{"walk", "walk", "plateaus", "plateaus", "flat", "ties", "up", "down", "zerovol", "spiky"}
	reg := regimes[c.Rng.IntN(len(regimes))]
	b := Bars{}
	plateau := 0 // remaining length of the current flat run (regime "plateaus": a walk interrupted by flat runs of 3..25 bars)
	price := grid(20 + c.Rng.Float64()*200)
	day := int64(11000 + c.Rng.IntN(3000))
	for i := 0; i < n; i++ {
		var cl float64
		switch reg {
		case "walk":
			cl = price + grid(c.Rng.NormFloat64()*2)
		case "plateaus":
			if plateau == 0 && c.Rng.IntN(6) == 0 {
				plateau = 3 + c.Rng.IntN(23)
			}
			if plateau > 0 {
				plateau--
				cl = price
			} else {
				cl = price + grid(c.Rng.NormFloat64()*2)
			}
		case "flat":
			cl = price
		case "ties":
			if c.Rng.IntN(3) == 0 {
				cl = price + float64(c.Rng.IntN(3)-1)
			} else {
				cl = price
			}
		case "up":
			cl = price + grid(c.Rng.Float64()*2)
		case "down":
			cl = price - grid(c.Rng.Float64()*0.5)
		case "spiky":
			cl = price + grid(c.Rng.NormFloat64()*15)
		default:
			cl = price + grid(c.Rng.NormFloat64()*2)
		}
		if cl < 1 {
			cl = 1
		}
		op := price
		hi := math.Max(op, cl)
		lo := math.Min(op, cl)
		if reg != "flat" && !(reg == "plateaus" && cl == price) && c.Rng.IntN(4) != 0 {
			hi += grid(c.Rng.Float64() * 2)
			lo -= grid(c.Rng.Float64() * 2)
			if lo < 0.5 {
				lo = 0.5
			}
		}
		vol := float64(1000 + c.Rng.IntN(100000))
		if reg == "zerovol" && c.Rng.IntN(3) == 0 {
			vol = 0
		}
		if reg == "ties" && i > 0 && c.Rng.IntN(3) == 0 {
			vol = b.Volume[i-1]
		}
		b.Open = append(b.Open, op)
		b.High = append(b.High, hi)
		b.Low = append(b.Low, lo)
		b.Close = append(b.Close, cl)
		b.Volume = append(b.Volume, vol)
		b.Day = append(b.Day, day)
		day += int64(1 + c.Rng.IntN(3))
		price = cl
	}
	return b, reg
}

// randSeries generates a plain numeric series (zeros, negatives, ties, flat and monotone runs).
func (c *Ctx) randSeries(n int) ([]float64, string) {
	regimes := []string{"walk", "walk", "plateaus", "zeros", "negative", "ties", "flat", "up", "down", "small-int"}
	reg := regimes[c.Rng.IntN(len(regimes))]
	xs := make([]float64, n)
	x := grid(c.Rng.Float64() * 100)
	plateau := 0
	for i := range xs {
		switch reg {
		case "walk":
			x += grid(c.Rng.NormFloat64() * 3)
		case "plateaus":
			if plateau == 0 && c.Rng.IntN(6) == 0 {
				plateau = 3 + c.Rng.IntN(23)
			}
			if plateau > 0 {
				plateau--
			} else {
				x += grid(c.Rng.NormFloat64() * 3)
			}
		case "zeros":
			if c.Rng.IntN(3) == 0 {
				x = 0
			} else {
				x = grid(c.Rng.Float64() * 10)
			}
		case "negative":
			x = grid(c.Rng.NormFloat64() * 10)
		case "ties":
			if c.Rng.IntN(3) == 0 {
				x += float64(c.Rng.IntN(3) - 1)
			}
		case "flat":
		case "up":
			x += grid(c.Rng.Float64())
		case "down":
			x -= grid(c.Rng.Float64())
		case "small-int":
			x = float64(c.Rng.IntN(7) - 2)
		}
		xs[i] = x
	}
	return xs, reg
}

// inputsFor selects the series of a bar sequence by the names of Compute's parameters.
func inputsFor(names []string, b Bars, generic [][]float64) [][]float64 {
	out := make([][]float64, len(names))
	g := 0
	for i, nm := range names {
		l := strings.ToLower(nm)
		switch {
		case strings.HasPrefix(l, "high"):
			out[i] = b.High
		case strings.HasPrefix(l, "low"):
			out[i] = b.Low
		case strings.HasPrefix(l, "clos"):
			out[i] = b.Close
		case strings.HasPrefix(l, "open"):
			out[i] = b.Open
		case strings.HasPrefix(l, "volume"):
			out[i] = b.Volume
		default:
			out[i] = generic[g%len(generic)]
			g++
		}
	}
	return out
}

func usesBars(names []string) bool {
	for _, nm := range names {
		l := strings.ToLower(nm)
		if strings.HasPrefix(l, "high") || strings.HasPrefix(l, "low") || strings.HasPrefix(l, "open") || strings.HasPrefix(l, "volume") {
			return true
		}
	}
	return false
}

// ---- running the implementation --------------------------------------------------------------------

// runIndicator calls inst.Compute on the inputs and drains every output concurrently.
// hung reports that not all outputs closed within the time limit.
func runIndicator(inst reflect.Value, inputs [][]float64, limit time.Duration) (outs [][]float64, hung bool) {
	outs, hung = runIndicatorOnce(inst, inputs, limit)
	if hung { // confirm with a generous limit: a loaded machine must not look like a deadlock
		outs, hung = runIndicatorOnce(inst, inputs, 4*time.Second)
	}
	return outs, hung
}

func runIndicatorOnce(inst reflect.Value, inputs [][]float64, limit time.Duration) (outs [][]float64, hung bool) {
	m := inst.MethodByName("Compute")
	args := make([]reflect.Value, len(inputs))
	for i, in := range inputs {
		args[i] = reflect.ValueOf(helper.SliceToChan(in))
	}
	res := m.Call(args)
	outs = make([][]float64, len(res))
	done := make(chan int, len(res))
	bufs := make([]*[]float64, len(res))
	for i, r := range res {
		ch := r.Interface().(<-chan float64)
		buf := &[]float64{}
		bufs[i] = buf
		go func(i int, ch <-chan float64, buf *[]float64) {
			for v := range ch {
				*buf = append(*buf, v)
			}
			done <- i
		}(i, ch, buf)
	}
	timer := time.NewTimer(limit)
	defer timer.Stop()
	finished := map[int]bool{}
	for len(finished) < len(res) {
		select {
		case i := <-done:
			finished[i] = true
		case <-timer.C:
			for i := range res {
				if finished[i] {
					outs[i] = *bufs[i]
				}
			}
			return outs, true
		}
	}
	for i := range res {
		outs[i] = *bufs[i]
	}
	return outs, false
}

func snapshotsOf(b Bars) []*asset.Snapshot {
	out := make([]*asset.Snapshot, len(b.Close))
	for i := range out {
		out[i] = &asset.Snapshot{
			Date: time.Unix(b.Day[i]*86400, 0).UTC(),
			Open: b.Open[i], High: b.High[i], Low: b.Low[i], Close: b.Close[i], Volume: b.Volume[i],
		}
	}
	return out
}

// runStrategy calls inst.Compute on the snapshots and drains the actions.
func runStrategy(inst reflect.Value, b Bars, limit time.Duration) (acts []int64, hung bool) {
	m := inst.MethodByName("Compute")
	res := m.Call([]reflect.Value{reflect.ValueOf(helper.SliceToChan(snapshotsOf(b)))})
	ch := res[0]
	done := make(chan []int64, 1)
	go func() {
		var out []int64
		for {
			v, ok := ch.Recv()
			if !ok {
				break
			}
			out = append(out, v.Int())
		}
		done <- out
	}()
	select {
	case out := <-done:
		return out, false
	case <-time.After(limit):
		return nil, true
	}
}

// ---- Coq printers -------------------------------------------------------------------------------------

func coqOuts(t genType, term string) string { return coqOutsNamed(t, t.Coq+"_Compute", term) }

func coqOutsNamed(t genType, fn, term string) string {
	call := fmt.Sprintf("(%s %s", fn, term)
	for i := 0; i < t.Inputs; i++ {
		call += fmt.Sprintf(" (EIn %d)", i)
	}
	call += ")"
	if t.Outputs == 1 {
		return "([" + call + "] : list (expr float float))"
	}
	names := make([]string, t.Outputs)
	for i := range names {
		names[i] = fmt.Sprintf("o%d_", i)
	}
	return fmt.Sprintf("(let '(%s) := %s in ([%s] : list (expr float float)))", strings.Join(names, ", "), call, strings.Join(names, "; "))
}

func coqBars(b Bars) string {
	items := make([]string, len(b.Close))
	for i := range items {
		items[i] = fmt.Sprintf("mk_asset_Snapshot %s %s %s %s %s %s", coqZ(b.Day[i]), coqF(b.Open[i]), coqF(b.High[i]), coqF(b.Low[i]), coqF(b.Close[i]), coqF(b.Volume[i]))
	}
	return coqList(items)
}

func coqListListF(xs [][]float64) string {
	it := make([]string, len(xs))
	for i, x := range xs {
		it[i] = coqListF(x)
	}
	return coqList(it)
}

func barsJSON(b Bars) map[string]any {
	return map[string]any{"open": jsonF(b.Open), "high": jsonF(b.High), "low": jsonF(b.Low), "close": jsonF(b.Close), "volume": jsonF(b.Volume), "day": b.Day}
}
