// C13: backtest.Backtest.Run with real strategies on an InMemoryRepository, a recording report in front of the bundled
// DataReport / HTMLReport, 1..16 workers.  Every run happens in a child process (a fatal "concurrent map writes" or a race
// detector report is an observation); the child also evaluates every (asset, strategy) pair directly on the window.
package main

import (
	"encoding/json"
	"fmt"
	"io"
	"log/slog"
	"math"
	"os"
	"path/filepath"
	"regexp"
	"sort"
	"strconv"
	"strings"
	"sync"
	"time"

	"github.com/cinar/indicator/v2/asset"
	"github.com/cinar/indicator/v2/backtest"
	"github.com/cinar/indicator/v2/helper"
	"github.com/cinar/indicator/v2/strategy"
)

func init() {
	registry["C13"] = runC13
	childRegistry["c13"] = c13Child
}

var c13Names = []string{"aapl", "brk.b", "x", "long-name_1", "msft", "zz"}

type c13Job struct {
	Assets     map[string][][]string `json:"repository"` // name -> rows [days before today, open, high, low, close, volume]
	Names      []int                 `json:"names"`      // requested names (indices into c13Names); empty: all of the repository
	Strategies []Spec                `json:"strategies"`
	Workers    int                   `json:"workers"`
	LastDays   int                   `json:"last_days"`
	Report     string                `json:"report"` // data | html
	Pages      bool                  `json:"write_strategy_reports"`
	Repeat     int                   `json:"repeat,omitempty"`
}

type c13Result struct {
	Strategy int    `json:"strategy"`
	Outcome  string `json:"outcome"` // %x of the float
	Action   int    `json:"action"`
	Trans    int    `json:"actions"` // number of actions (DataStrategyResult.Transactions holds them all)
}

type c13Obs struct {
	Error    string                 `json:"error,omitempty"`
	RunErr   string                 `json:"run_error,omitempty"`
	Hung     bool                   `json:"hung"`
	Names    []int                  `json:"names"` // the names the run used (the repository's own list when none was requested)
	Readable []int                  `json:"readable"`
	Trace    []string               `json:"trace"`    // Coq call terms
	Data     map[string][]c13Result `json:"data"`     // DataReport.Results
	Expected map[string][]c13Result `json:"expected"` // direct evaluation
	AssetPgs map[string][][2]string `json:"asset_pages"`
	Index    [][3]string            `json:"index"`
}

// recorder notes every report call (in the order the calls begin) and passes it on.
type recorder struct {
	inner backtest.Report
	mu    sync.Mutex
	calls []string
	ids   map[string]int
	strat map[strategy.Strategy]int
}

func (r *recorder) note(s string) { r.mu.Lock(); r.calls = append(r.calls, s); r.mu.Unlock() }
func (r *recorder) Begin(names []string, ss []strategy.Strategy) error {
	r.note("CBegin")
	return r.inner.Begin(names, ss)
}
func (r *recorder) AssetBegin(name string, ss []strategy.Strategy) error {
	r.note(fmt.Sprintf("CAssetBegin %d%%nat", r.ids[name]))
	return r.inner.AssetBegin(name, ss)
}
func (r *recorder) Write(name string, s strategy.Strategy, snaps <-chan *asset.Snapshot, acts <-chan strategy.Action, outs <-chan float64) error {
	r.note(fmt.Sprintf("CWrite %d%%nat %d%%nat", r.ids[name], r.strat[s]))
	return r.inner.Write(name, s, snaps, acts, outs)
}
func (r *recorder) AssetEnd(name string) error {
	r.note(fmt.Sprintf("CAssetEnd %d%%nat", r.ids[name]))
	return r.inner.AssetEnd(name)
}
func (r *recorder) End() error { r.note("CEnd"); return r.inner.End() }

func today() time.Time { return time.Now().UTC().Truncate(24 * time.Hour) }

func c13Snaps(rows [][]string) []*asset.Snapshot {
	out := make([]*asset.Snapshot, len(rows))
	for i, r := range rows {
		back, _ := strconv.Atoi(r[0])
		f := parseF(r[1:])
		out[i] = &asset.Snapshot{Date: today().AddDate(0, 0, -back), Open: f[0], High: f[1], Low: f[2], Close: f[3], Volume: f[4]}
	}
	return out
}

func lastOr[T any](xs []T, zero T) T {
	if len(xs) == 0 {
		return zero
	}
	return xs[len(xs)-1]
}

var rowRe = regexp.MustCompile(`(?s)<tr>(.*?)</tr>`)
var hrefRe = regexp.MustCompile(`<a href="[^"]*">([^<]*)</a>`)
var pctRe = regexp.MustCompile(`(-?[0-9]+\.[0-9][0-9]|[+-]?Inf|NaN)%`)
var tdRe = regexp.MustCompile(`(?s)<td>\s*([^<]*?)\s*</td>`)

func c13Exec(job c13Job) (obs c13Obs) {
	repo := asset.NewInMemoryRepository()
	names := make([]string, 0, len(job.Assets))
	for n := range job.Assets {
		names = append(names, n)
	}
	sort.Strings(names)
	for _, n := range names {
		if err := repo.Append(n, helper.SliceToChan(c13Snaps(job.Assets[n]))); err != nil {
			obs.Error = err.Error()
			return
		}
	}
	ids := map[string]int{}
	for i, n := range c13Names {
		ids[n] = i
	}
	var strategies []strategy.Strategy
	stratIdx := map[strategy.Strategy]int{}
	for i := range job.Strategies {
		v, _, err := job.Strategies[i].Build()
		if err != nil {
			obs.Error = err.Error()
			return
		}
		s := v.Interface().(strategy.Strategy)
		strategies = append(strategies, s)
		stratIdx[s] = i
	}
	var inner backtest.Report
	var data *backtest.DataReport
	dir := ""
	if job.Report == "html" {
		d, err := os.MkdirTemp("", "verif-c13-")
		if err != nil {
			obs.Error = err.Error()
			return
		}
		dir = d
		defer os.RemoveAll(dir)
		h := backtest.NewHTMLReport(dir)
		h.WriteStrategyReports = job.Pages
		h.Logger = slog.New(slog.NewTextHandler(io.Discard, nil))
		inner = h
	} else {
		data = backtest.NewDataReport()
		inner = data
	}
	rec := &recorder{inner: inner, ids: ids, strat: stratIdx}
	b := backtest.NewBacktest(repo, rec)
	b.Workers, b.LastDays = job.Workers, job.LastDays
	b.Logger = slog.New(slog.NewTextHandler(io.Discard, nil))
	b.Strategies = strategies
	for _, i := range job.Names {
		b.Names = append(b.Names, c13Names[i])
	}
	done := make(chan error, 1)
	go func() { done <- b.Run() }()
	select {
	case err := <-done:
		if err != nil {
			obs.RunErr = err.Error()
		}
	case <-time.After(30 * time.Second):
		obs.Hung = true
		return
	}
	obs.Trace = rec.calls
	for _, n := range b.Names {
		obs.Names = append(obs.Names, ids[n])
	}
	// direct evaluation of every pair on the window
	obs.Expected = map[string][]c13Result{}
	since := time.Now().AddDate(0, 0, -job.LastDays)
	for _, n := range b.Names {
		rows, ok := job.Assets[n]
		if !ok {
			continue
		}
		obs.Readable = append(obs.Readable, ids[n])
		var win []*asset.Snapshot
		for _, s := range c13Snaps(rows) {
			if !s.Date.Before(since) {
				win = append(win, s)
			}
		}
		for i := range job.Strategies {
			v, _, _ := job.Strategies[i].Build() // a fresh instance
			acts, outs := strategy.ComputeWithOutcome(v.Interface().(strategy.Strategy), helper.SliceToChan(win))
			var as []strategy.Action
			var os_ []float64
			var wg sync.WaitGroup
			wg.Add(2)
			go func() { defer wg.Done(); as = helper.ChanToSlice(acts) }()
			go func() { defer wg.Done(); os_ = helper.ChanToSlice(outs) }()
			wg.Wait()
			obs.Expected[n] = append(obs.Expected[n], c13Result{Strategy: i, Outcome: fmt.Sprintf("%x", lastOr(os_, 0)), Action: int(lastOr(as, 0)), Trans: len(as)})
		}
	}
	if data != nil {
		obs.Data = map[string][]c13Result{}
		for n, rs := range data.Results {
			obs.Data[n] = []c13Result{}
			for _, r := range rs {
				obs.Data[n] = append(obs.Data[n], c13Result{Strategy: stratIdx[r.Strategy], Outcome: fmt.Sprintf("%x", r.Outcome), Action: int(r.Action), Trans: len(r.Transactions)}) // Transactions holds every action
			}
		}
	} else {
		obs.AssetPgs = map[string][][2]string{}
		for _, n := range b.Names {
			page, err := os.ReadFile(filepath.Join(dir, n+".html"))
			if err != nil {
				continue
			}
			for _, m := range rowRe.FindAllStringSubmatch(string(page), -1) {
				h := hrefRe.FindStringSubmatch(m[1])
				p := pctRe.FindStringSubmatch(m[1])
				if h != nil && p != nil {
					obs.AssetPgs[n] = append(obs.AssetPgs[n], [2]string{h[1], p[1]})
				}
			}
		}
		if page, err := os.ReadFile(filepath.Join(dir, "index.html")); err == nil {
			for _, m := range rowRe.FindAllStringSubmatch(string(page), -1) {
				h := hrefRe.FindStringSubmatch(m[1])
				p := pctRe.FindStringSubmatch(m[1])
				tds := tdRe.FindAllStringSubmatch(m[1], -1)
				if h != nil && p != nil && len(tds) > 0 {
					obs.Index = append(obs.Index, [3]string{h[1], strings.TrimSpace(tds[0][1]), p[1]})
				}
			}
		}
	}
	return obs
}

func c13Child(data []byte) any {
	var job c13Job
	if err := json.Unmarshal(data, &job); err != nil {
		return c13Obs{Error: err.Error()}
	}
	var last c13Obs
	for i := 0; i < max(1, job.Repeat); i++ {
		last = c13Exec(job)
	}
	return last
}

func pct(x float64) string { return fmt.Sprintf("%.2f", x) }

func (c *Ctx) c13Case(job c13Job, race bool) {
	res := runChildJob("c13", job, race, 120*time.Second)
	subject := "backtest.Backtest/" + job.Report
	c.Count("report/" + job.Report)
	c.Count(fmt.Sprintf("workers/%d", job.Workers))
	if race {
		c.Count("under the race detector")
	}
	switch {
	case res.Crashed:
		c.Meta.Evaluations++
		c.Direct(Violation{Subject: subject, Kind: "spec_crash", Detail: fmt.Sprintf("Backtest.Run with %d workers ended the process: %s", job.Workers, firstLines(res.Stderr, 8)), Input: job})
		return
	case res.TimedOut:
		c.Meta.Evaluations++
		c.Direct(Violation{Subject: subject, Kind: "spec_hang", Detail: "child did not finish", Input: job})
		return
	case res.Race:
		c.Direct(Violation{Subject: subject, Kind: "spec_race", Detail: fmt.Sprintf("data race in Backtest.Run with %d workers: %s", job.Workers, firstLines(res.Stderr, 16)), Input: job})
	}
	var obs c13Obs
	if err := json.Unmarshal(res.out, &obs); err != nil || obs.Error != "" {
		panic(fmt.Sprintf("c13 child: %v %s", err, obs.Error))
	}
	if obs.Hung || obs.RunErr != "" {
		c.Meta.Evaluations++
		c.Direct(Violation{Subject: subject, Kind: "spec_hang", Detail: "Backtest.Run did not return or failed: " + obs.RunErr, Input: job})
		return
	}
	// values: every stored / presented result against the direct evaluation
	var rankings []string
	var dataIdx []string
	if job.Report == "data" {
		for _, id := range obs.Names {
			n := c13Names[id]
			got, ok := obs.Data[n]
			if !ok {
				continue
			}
			idx := make([]int, len(got))
			for i, r := range got {
				idx[i] = r.Strategy
			}
			dataIdx = append(dataIdx, fmt.Sprintf("(%d%%nat, %s)", id, coqNats(idx)))
			exp := obs.Expected[n]
			if len(got) == len(exp) {
				for i := range got {
					if got[i] != exp[i] {
						c.Direct(Violation{Subject: subject, Kind: "spec_result", Detail: fmt.Sprintf("%s x strategy %d: report holds %+v, direct evaluation on the window gives %+v", n, i, got[i], exp[i]), Input: job})
						break
					}
				}
			}
		}
	} else {
		stratName := map[string]int{}
		for i := range job.Strategies {
			v, _, _ := job.Strategies[i].Build()
			stratName[v.Interface().(strategy.Strategy).Name()] = i
		}
		bestOf := map[string]string{}
		for _, id := range obs.Names {
			n := c13Names[id]
			exp, readable := obs.Expected[n]
			rows := obs.AssetPgs[n]
			if !readable {
				continue
			}
			var outs []string
			var want, have []string
			for _, r := range rows {
				outs = append(outs, hexOfPct(r[1]))
				have = append(have, r[0]+"="+r[1])
			}
			for i, e := range exp {
				v, _, _ := job.Strategies[i].Build()
				want = append(want, v.Interface().(strategy.Strategy).Name()+"="+pct(parseF([]string{e.Outcome})[0]*100))
			}
			sort.Strings(want)
			hs := append([]string{}, have...)
			sort.Strings(hs)
			if strings.Join(want, "|") != strings.Join(hs, "|") {
				c.Direct(Violation{Subject: subject, Kind: "spec_result", Detail: fmt.Sprintf("asset page of %s lists %v, direct evaluation gives %v", n, have, want), Input: job})
			}
			rankings = append(rankings, coqList(outs))
			if len(rows) > 0 {
				bestOf[n] = rows[0][0] + "=" + rows[0][1]
			}
		}
		var outs, have, want []string
		for _, r := range obs.Index {
			outs = append(outs, hexOfPct(r[2]))
			have = append(have, r[0]+":"+r[1]+"="+r[2])
		}
		for n, b := range bestOf {
			want = append(want, n+":"+b)
		}
		sort.Strings(want)
		hs := append([]string{}, have...)
		sort.Strings(hs)
		if strings.Join(want, "|") != strings.Join(hs, "|") {
			c.Direct(Violation{Subject: subject, Kind: "spec_result", Detail: fmt.Sprintf("index page lists %v, the heads of the asset pages are %v", have, want), Input: job})
		}
		rankings = append(rankings, coqList(outs))
	}
	dataTerm := "None"
	if job.Report == "data" {
		dataTerm = "(Some " + coqList(dataIdx) + ")"
	}
	term := fmt.Sprintf("CBack %s %s %d%%nat %d%%nat %s %s %s", coqNats(obs.Names), coqNats(obs.Readable), len(job.Strategies), job.Workers,
		coqList(obs.Trace), dataTerm, coqList(rankings))
	c.AddCase(term, CaseInfo{Subject: subject, Desc: fmt.Sprintf("%d workers, %d names (%d readable), %d strategies, %d report calls", job.Workers, len(obs.Names), len(obs.Readable), len(job.Strategies), len(obs.Trace)),
		Input: job}, len(obs.Readable) > 0)
}

func hexOfPct(s string) string {
	f, err := strconv.ParseFloat(s, 64)
	if err != nil {
		f = math.NaN()
	}
	return coqF(f)
}

func (c *Ctx) randC13Job() c13Job {
	job := c13Job{Assets: map[string][][]string{}, LastDays: 30 + c.Rng.IntN(370)}
	job.Workers = []int{1, 1, 2, 3, 4, 8, 16}[c.Rng.IntN(7)]
	job.Report = []string{"data", "html"}[c.Rng.IntN(2)]
	job.Pages = c.Rng.IntN(3) == 0
	for _, n := range c13Names {
		if c.Rng.IntN(5) == 0 {
			continue
		}
		cnt := []int{0, 1, 5, 40, 90, 160}[c.Rng.IntN(6)]
		b, _ := c.randBars(cnt)
		var rows [][]string
		back := job.LastDays + c.Rng.IntN(60) - 50 + cnt // some snapshots before the window, most inside
		for i := 0; i < cnt; i++ {
			if back == job.LastDays || back == job.LastDays+1 { // keep clear of the boundary (the window is cut at the time of day of the run)
				back--
			}
			if back < 0 {
				break
			}
			rows = append(rows, append([]string{strconv.Itoa(back)}, jsonF([]float64{b.Open[i], b.High[i], b.Low[i], b.Close[i], b.Volume[i]})...))
			back -= 1
		}
		if rows == nil {
			rows = [][]string{}
		}
		job.Assets[n] = rows
	}
	if c.Rng.IntN(3) != 0 {
		for _, k := range c.Rng.Perm(len(c13Names)) {
			if c.Rng.IntN(3) != 0 {
				job.Names = append(job.Names, k)
			}
		}
	}
	seen := map[string]bool{}
	bs := baseStrategyTypes()
	for len(job.Strategies) < 1+c.Rng.IntN(5) {
		sp := Spec{}
		for _, k := range ctorsOf(bs[c.Rng.IntN(len(bs))]) { // default configurations only: inadmissible periods hang (C03's subject)
			if len(genCtors[k].Params) == 0 {
				sp.Ctor = k
			}
		}
		if sp.Ctor == "" {
			continue
		}
		v, _, err := sp.Build()
		if err != nil {
			continue
		}
		name := v.Interface().(strategy.Strategy).Name()
		if !seen[name] {
			seen[name] = true
			job.Strategies = append(job.Strategies, sp)
		}
	}
	return job
}

func runC13(c *Ctx) error {
	c.header = "From Coq Require Import Floats ZArith List.\nImport ListNotations.\nFrom Verif Require Import Backtest.Backtest Run.C13Run.\nOpen Scope float_scope.\n"
	c.Meta.Rule = "random repositories over 6 asset names (missing, empty, 1..160 snapshots straddling the look-back window), requested name lists (duplicate-free, random order, some unknown to the repository) or the repository's own list, " +
		"1..5 distinct default-configured strategies, workers 1/2/3/4/8/16, DataReport and HTMLReport (with and without strategy pages); every run in a child process, one in four under the race detector; " +
		"recorded report calls and presented rankings are evaluated inside Coq, result values against direct evaluation by the harness."
	if c.Replay != "" {
		var job c13Job
		if err := readReplayInput(c.Replay, &job); err != nil {
			return err
		}
		c.c13Case(job, haveRaceExe())
		return nil
	}
	for i := 0; i < c.N(80, 800); i++ {
		c.c13Case(c.randC13Job(), i%4 == 0)
	}
	return nil
}
