// C17: operation histories against the real helper.Ring and helper.Bst.
package main

import (
	"fmt"
	"math"
	"strings"

	"github.com/cinar/indicator/v2/helper"
)

func init() { registry["C17"] = runC17 }

type ringOp struct {
	Kind string  `json:"k"` // put get at full empty
	I    int64   `json:"i,omitempty"`
	F    float64 `json:"-"`
	FS   string  `json:"f,omitempty"`
}

type bstOp struct {
	Kind string  `json:"k"` // ins rem has min max
	I    int64   `json:"i,omitempty"`
	F    float64 `json:"-"`
	FS   string  `json:"f,omitempty"`
}

type c17Input struct {
	Type string   `json:"type"`
	Cap  int      `json:"cap,omitempty"`
	Ring []ringOp `json:"ring_ops,omitempty"`
	Bst  []bstOp  `json:"bst_ops,omitempty"`
	Outs []string `json:"observed"`
}

type intBounds struct {
	name     string
	min, max int64
}

var intTypes = []intBounds{
	{"int8", math.MinInt8, math.MaxInt8},
	{"int16", math.MinInt16, math.MaxInt16},
	{"int32", math.MinInt32, math.MaxInt32},
	{"int64", math.MinInt64, math.MaxInt64},
	{"int", math.MinInt64, math.MaxInt64},
}

func (c *Ctx) poolInt(b intBounds) []int64 {
	p := []int64{b.min, b.min + 1, -1, 0, 1, b.max - 1, b.max, -100, 100, b.max/2 + 1, b.min / 2}
	for i := 0; i < 4; i++ {
		span := uint64(b.max) - uint64(b.min)
		v := int64(uint64(b.min) + c.Rng.Uint64N(span) + 0)
		p = append(p, v)
	}
	// neighbours far above 2^53 (exactness of comparison)
	if b.max > 1<<60 {
		p = append(p, 1<<60, 1<<60+1, -(1 << 60), -(1<<60 + 1))
	}
	return p
}

func (c *Ctx) poolFloat(f32 bool) []float64 {
	var p []float64
	if f32 {
		p = []float64{-math.MaxFloat32, math.MaxFloat32, math.SmallestNonzeroFloat32, -math.SmallestNonzeroFloat32,
			0, math.Copysign(0, -1), 1, -1, 0.5, 100, -100, math.Inf(1), math.Inf(-1), float64(float32(1e30)), float64(float32(-1e30))}
		for i := 0; i < 4; i++ {
			p = append(p, float64(float32(c.Rng.NormFloat64()*1000)))
		}
	} else {
		p = []float64{-math.MaxFloat64, math.MaxFloat64, math.SmallestNonzeroFloat64, -math.SmallestNonzeroFloat64,
			0, math.Copysign(0, -1), 1, -1, 0.5, 100, -100, math.Inf(1), math.Inf(-1), 1e300, -1e300,
			math.Nextafter(1, 2), 2.2250738585072014e-308}
		for i := 0; i < 4; i++ {
			p = append(p, c.Rng.NormFloat64()*1000)
		}
	}
	return p
}

// ---- Bst ---------------------------------------------------------------------------------

func execBst[T helper.Number](ops []bstOp, isFloat bool) []string {
	b := helper.NewBst[T]()
	outs := make([]string, len(ops))
	conv := func(o bstOp) T {
		if isFloat {
			return T(o.F)
		}
		return T(o.I)
	}
	show := func(v T) string {
		if isFloat {
			return coqF(float64(v))
		}
		return coqZ(int64(v))
	}
	for i, o := range ops {
		switch o.Kind {
		case "ins":
			b.Insert(conv(o))
			outs[i] = "BUnit"
		case "rem":
			outs[i] = "BBool " + coqBool(b.Remove(conv(o)))
		case "has":
			outs[i] = "BBool " + coqBool(b.Contains(conv(o)))
		case "min":
			outs[i] = "BVal " + show(b.Min())
		case "max":
			outs[i] = "BVal " + show(b.Max())
		}
	}
	return outs
}

func bstOpTerm(o bstOp, isFloat bool) string {
	v := coqZ(o.I)
	if isFloat {
		v = coqF(o.F)
	}
	switch o.Kind {
	case "ins":
		return "BInsert " + v
	case "rem":
		return "BRemove " + v
	case "has":
		return "BContains " + v
	case "min":
		return "BMin"
	}
	return "BMax"
}

func (c *Ctx) genBstOps(n int, pickI func() int64, pickF func() float64, isFloat bool) []bstOp {
	ops := make([]bstOp, 0, n)
	var live []bstOp
	for len(ops) < n {
		r := c.Rng.IntN(100)
		var o bstOp
		switch {
		case r < 40:
			o = bstOp{Kind: "ins", I: pickI(), F: pickF()}
			live = append(live, o)
		case r < 65:
			o = bstOp{Kind: "rem", I: pickI(), F: pickF()}
			if len(live) > 0 && c.Rng.IntN(3) > 0 { // mostly remove something that was inserted
				k := c.Rng.IntN(len(live))
				o.I, o.F = live[k].I, live[k].F
			}
		case r < 85:
			o = bstOp{Kind: "has", I: pickI(), F: pickF()}
			if len(live) > 0 && c.Rng.IntN(2) == 0 {
				k := c.Rng.IntN(len(live))
				o.I, o.F = live[k].I, live[k].F
			}
		case r < 93:
			o = bstOp{Kind: "min"}
		default:
			o = bstOp{Kind: "max"}
		}
		if isFloat {
			o.FS = fmt.Sprint(o.F)
			o.I = 0
		}
		ops = append(ops, o)
	}
	return ops
}

func (c *Ctx) bstCase(typ string, ops []bstOp) {
	isFloat := strings.HasPrefix(typ, "float")
	var outs []string
	switch typ {
	case "int8":
		outs = execBst[int8](ops, false)
	case "int16":
		outs = execBst[int16](ops, false)
	case "int32":
		outs = execBst[int32](ops, false)
	case "int64":
		outs = execBst[int64](ops, false)
	case "int":
		outs = execBst[int](ops, false)
	case "float32":
		outs = execBst[float32](ops, true)
	case "float64":
		outs = execBst[float64](ops, true)
	}
	terms := make([]string, len(ops))
	rem := 0
	for i, o := range ops {
		terms[i] = bstOpTerm(o, isFloat)
		if o.Kind == "rem" && strings.HasSuffix(outs[i], "true") {
			rem++
		}
	}
	ctor := "CBstZ"
	if isFloat {
		ctor = "CBstF"
	}
	term := fmt.Sprintf("%s %s %s", ctor, coqList(terms), coqList(outs))
	c.Count("bst/" + typ)
	c.Count(fmt.Sprintf("bst/len<=%d", bucket(len(ops))))
	c.AddCase(term, CaseInfo{Subject: "helper.Bst[" + typ + "]", Desc: fmt.Sprintf("%d ops, %d successful removes", len(ops), rem),
		Input: c17Input{Type: typ, Bst: ops, Outs: outs}}, len(ops) >= 3 && rem >= 1)
}

func bucket(n int) int {
	for _, b := range []int{4, 8, 16, 32, 64, 128, 256, 512} {
		if n <= b {
			return b
		}
	}
	return 1 << 20
}

// ---- Ring --------------------------------------------------------------------------------

func execRing[T any](capacity int, ops []ringOp, conv func(ringOp) T, show func(T) string) []string {
	r := helper.NewRing[T](capacity)
	outs := make([]string, len(ops))
	for i, o := range ops {
		func() {
			// a panic inside the implementation is an observation (never what the model returns for an in-domain call)
			defer func() {
				if recover() != nil {
					outs[i] = "ONone"
				}
			}()
			execRingOp(r, i, o, outs, conv, show)
		}()
	}
	return outs
}

func execRingOp[T any](r *helper.Ring[T], i int, o ringOp, outs []string, conv func(ringOp) T, show func(T) string) {
	{
		switch o.Kind {
		case "put":
			outs[i] = "OVal " + show(r.Put(conv(o)))
		case "get":
			v, ok := r.Get()
			if ok {
				outs[i] = "OVal " + show(v)
			} else {
				outs[i] = "ONone"
			}
		case "at":
			outs[i] = "OVal " + show(r.At(int(o.I)))
		case "full":
			outs[i] = "OBool " + coqBool(r.IsFull())
		case "empty":
			outs[i] = "OBool " + coqBool(r.IsEmpty())
		}
	}
}

func (c *Ctx) ringCase(typ string, capacity int, ops []ringOp) {
	isFloat := typ == "float64"
	var outs []string
	if isFloat {
		outs = execRing[float64](capacity, ops, func(o ringOp) float64 { return o.F }, coqF)
	} else {
		outs = execRing[int64](capacity, ops, func(o ringOp) int64 { return o.I }, coqZ)
	}
	terms := make([]string, len(ops))
	puts, gets := 0, 0
	for i, o := range ops {
		v := coqZ(o.I)
		if isFloat {
			v = coqF(o.F)
		}
		switch o.Kind {
		case "put":
			terms[i] = "RPut " + v
			puts++
		case "get":
			terms[i] = "RGet"
			gets++
		case "at":
			terms[i] = fmt.Sprintf("RAt %d", o.I)
		case "full":
			terms[i] = "RIsFull"
		case "empty":
			terms[i] = "RIsEmpty"
		}
	}
	ctor := "CRingZ"
	if isFloat {
		ctor = "CRingF"
	}
	term := fmt.Sprintf("%s %d %s %s", ctor, capacity, coqList(terms), coqList(outs))
	c.Count("ring/" + typ)
	c.Count(fmt.Sprintf("ring/cap=%d", capacity))
	c.AddCase(term, CaseInfo{Subject: "helper.Ring[" + typ + "]", Desc: fmt.Sprintf("cap %d, %d ops", capacity, len(ops)),
		Input: c17Input{Type: typ, Cap: capacity, Ring: ops, Outs: outs}}, puts > capacity && gets >= 1)
}

func (c *Ctx) genRingOps(n, capacity int, isFloat bool) []ringOp {
	ops := make([]ringOp, 0, n)
	// phases make fill / drain / refill patterns likely
	phase := c.Rng.IntN(3)
	for len(ops) < n {
		if c.Rng.IntN(6) == 0 {
			phase = c.Rng.IntN(3)
		}
		r := c.Rng.IntN(100)
		putW := []int{60, 15, 35}[phase]
		getW := []int{10, 55, 35}[phase]
		var o ringOp
		switch {
		case r < putW:
			o = ringOp{Kind: "put", I: int64(len(ops) + 1)}
			if c.Rng.IntN(4) == 0 {
				o.I = []int64{math.MinInt64, math.MaxInt64, 0, -1}[c.Rng.IntN(4)]
			}
			if isFloat {
				o.F = float64(o.I) + 0.5
				if c.Rng.IntN(5) == 0 {
					o.F = []float64{math.Inf(1), math.MaxFloat64, math.SmallestNonzeroFloat64, math.Copysign(0, -1)}[c.Rng.IntN(4)]
				}
				o.FS = fmt.Sprint(o.F)
				o.I = 0
			}
		case r < putW+getW:
			o = ringOp{Kind: "get"}
		case r < putW+getW+(100-putW-getW)/2:
			o = ringOp{Kind: "at", I: int64(c.Rng.IntN(capacity + 2))}
		case r%2 == 0:
			o = ringOp{Kind: "full"}
		default:
			o = ringOp{Kind: "empty"}
		}
		ops = append(ops, o)
	}
	return ops
}

func runC17(c *Ctx) error {
	c.header = "From Coq Require Import Floats ZArith List.\nImport ListNotations.\nFrom Verif Require Import Data.Ring Data.Bst Run.C17Run.\nOpen Scope float_scope.\n"
	c.Meta.Rule = "random operation histories (one PCG stream) against helper.Ring[int64|float64] (capacities 1-6) and " +
		"helper.Bst[int8|int16|int32|int64|int|float32|float64]; values drawn from per-type pools of extremes " +
		"(min, min+1, -1, 0, 1, max-1, max, +-100, neighbours above 2^53, +-Inf, +-0, subnormals) plus random ones; removes/contains " +
		"mostly target inserted keys; corpus histories first. A Bst case is non-trivial when it has >= 3 ops and >= 1 successful Remove, " +
		"a Ring case when puts exceed the capacity and it has >= 1 Get; distinct = distinct Coq case terms."

	if c.Replay != "" {
		return replayC17(c)
	}
	// corpus: the minimised witnesses of past findings run first
	c.bstCase("int8", []bstOp{{Kind: "ins", I: -100}, {Kind: "ins", I: 100}, {Kind: "has", I: 100}, {Kind: "rem", I: 100}, {Kind: "max"}})
	c.bstCase("int64", []bstOp{{Kind: "ins", I: math.MinInt64}, {Kind: "ins", I: math.MaxInt64}, {Kind: "has", I: math.MaxInt64}, {Kind: "rem", I: math.MaxInt64}, {Kind: "max"}})
	c.bstCase("float64", []bstOp{{Kind: "ins", F: math.Inf(1), FS: "+Inf"}, {Kind: "has", F: math.Inf(1), FS: "+Inf"}, {Kind: "rem", F: math.Inf(1), FS: "+Inf"}, {Kind: "max"}})
	c.bstCase("int64", []bstOp{{Kind: "ins", I: 1 << 60}, {Kind: "has", I: 1<<60 + 1}, {Kind: "rem", I: 1<<60 + 1}, {Kind: "ins", I: 1<<60 + 1}, {Kind: "rem", I: 1 << 60}, {Kind: "min"}})
	c.ringCase("int64", 3, []ringOp{{Kind: "put", I: 1}, {Kind: "get"}, {Kind: "put", I: 2}, {Kind: "put", I: 3}, {Kind: "at", I: 0}, {Kind: "get"}, {Kind: "get"}, {Kind: "empty"}})

	nb := c.N(40, 600)
	maxLen := c.N(60, 300)
	for _, b := range intTypes {
		pool := c.poolInt(b)
		for i := 0; i < nb; i++ {
			sub := pool[:3+c.Rng.IntN(len(pool)-2)]
			n := 1 + c.Rng.IntN(maxLen)
			ops := c.genBstOps(n, func() int64 { return sub[c.Rng.IntN(len(sub))] }, func() float64 { return 0 }, false)
			c.bstCase(b.name, ops)
		}
	}
	for _, typ := range []string{"float32", "float64"} {
		pool := c.poolFloat(typ == "float32")
		for i := 0; i < nb; i++ {
			sub := pool[:3+c.Rng.IntN(len(pool)-2)]
			c.Rng.Shuffle(len(sub), func(a, b int) { sub[a], sub[b] = sub[b], sub[a] })
			n := 1 + c.Rng.IntN(maxLen)
			ops := c.genBstOps(n, func() int64 { return 0 }, func() float64 { return sub[c.Rng.IntN(len(sub))] }, true)
			c.bstCase(typ, ops)
		}
	}
	nr := c.N(60, 900)
	for i := 0; i < nr; i++ {
		capacity := 1 + c.Rng.IntN(6)
		n := 1 + c.Rng.IntN(maxLen)
		c.ringCase("int64", capacity, c.genRingOps(n, capacity, false))
		if i%2 == 0 {
			c.ringCase("float64", capacity, c.genRingOps(n, capacity, true))
		}
	}
	return nil
}

func replayC17(c *Ctx) error {
	var in c17Input
	if err := readReplayInput(c.Replay, &in); err != nil {
		return err
	}
	for i := range in.Bst {
		if in.Bst[i].FS != "" {
			fmt.Sscan(in.Bst[i].FS, &in.Bst[i].F)
		}
	}
	for i := range in.Ring {
		if in.Ring[i].FS != "" {
			fmt.Sscan(in.Ring[i].FS, &in.Ring[i].F)
		}
	}
	if len(in.Bst) > 0 {
		c.bstCase(in.Type, in.Bst)
	} else {
		c.ringCase(in.Type, in.Cap, in.Ring)
	}
	return nil
}
