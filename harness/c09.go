// C09: instances are reusable and race-free.
// In-process: one instance of every indicator and strategy type is called several times in a row (Compute, and Report for
// strategies) on different inputs of different lengths; every call is compared, bit for bit, with the same call on a fresh
// instance built from the same constructor and settings.  A reader of CSV (helper.Csv) is reused across documents whose
// columns come in different orders.
// Child process under the race detector: several goroutines call Compute (strategies: Compute and Report) on one instance at
// the same time, each on its own input; results are compared with fresh instances and a report of the race detector is an
// observation.
package main

import (
	"encoding/json"
	"fmt"
	"reflect"
	"strings"
	"sync"
	"time"

	"github.com/cinar/indicator/v2/helper"
)

func init() {
	registry["C09"] = runC09
	childRegistry["c09-conc"] = c09ConcChild
}

type c09Call struct {
	Kind   string         `json:"call"` // compute | report
	Inputs [][]string     `json:"inputs,omitempty"`
	Bars   map[string]any `json:"bars,omitempty"`
}

type c09Job struct {
	Type  string    `json:"type"`
	Kind  string    `json:"kind"` // indicator | strategy
	Spec  Spec      `json:"spec"`
	Cfg   string    `json:"coq_cfg,omitempty"`
	Calls []c09Call `json:"calls"`
}

type callResult struct {
	Hung  bool
	Outs  [][]float64 // indicator outputs
	Acts  []int64     // strategy actions
	Dates []int64     // report: dates and columns
	Cols  []obsCol
}

func sameResult(a, b callResult) string {
	if a.Hung != b.Hung {
		return fmt.Sprintf("hang: reused %v, fresh %v", a.Hung, b.Hung)
	}
	if a.Hung {
		return ""
	}
	if len(a.Outs) != len(b.Outs) {
		return "number of outputs"
	}
	for j := range a.Outs {
		if len(a.Outs[j]) != len(b.Outs[j]) {
			return fmt.Sprintf("output %d: %d values on the reused instance, %d on a fresh one", j, len(a.Outs[j]), len(b.Outs[j]))
		}
		for i := range a.Outs[j] {
			if !sameF(a.Outs[j][i], b.Outs[j][i]) {
				return fmt.Sprintf("output %d position %d: %v on the reused instance, %v on a fresh one", j, i, a.Outs[j][i], b.Outs[j][i])
			}
		}
	}
	if len(a.Acts) != len(b.Acts) {
		return fmt.Sprintf("%d actions on the reused instance, %d on a fresh one", len(a.Acts), len(b.Acts))
	}
	for i := range a.Acts {
		if a.Acts[i] != b.Acts[i] {
			return fmt.Sprintf("action %d: %d on the reused instance, %d on a fresh one", i, a.Acts[i], b.Acts[i])
		}
	}
	if len(a.Dates) != len(b.Dates) || len(a.Cols) != len(b.Cols) {
		return "report shape"
	}
	for j := range a.Cols {
		x, y := a.Cols[j], b.Cols[j]
		if x.label != y.label || len(x.num) != len(y.num) || len(x.ann) != len(y.ann) {
			return fmt.Sprintf("report column %d (%s): shape", j, x.label)
		}
		for i := range x.num {
			if !sameF(x.num[i], y.num[i]) {
				return fmt.Sprintf("report column %s row %d: %v on the reused instance, %v on a fresh one", x.label, i, x.num[i], y.num[i])
			}
		}
		for i := range x.ann {
			if x.ann[i] != y.ann[i] {
				return fmt.Sprintf("report column %s row %d: %q vs %q", x.label, i, x.ann[i], y.ann[i])
			}
		}
	}
	return ""
}

func doCall(inst reflect.Value, kind string, call c09Call, limit time.Duration) callResult {
	var r callResult
	if kind == "indicator" {
		inputs := make([][]float64, len(call.Inputs))
		for i := range call.Inputs {
			inputs[i] = parseF(call.Inputs[i])
		}
		r.Outs, r.Hung = runIndicatorOnce(inst, inputs, limit)
		return r
	}
	b := barsFromJSON(call.Bars)
	if call.Kind == "report" {
		var err error
		r.Dates, r.Cols, r.Hung, err = runReport(inst, b, limit)
		if err != nil {
			r.Hung = true
		}
		return r
	}
	r.Acts, r.Hung = runStrategy(inst, b, limit)
	return r
}

// c09Sequential: the calls one after the other on one instance, each against a fresh instance.
func (c *Ctx) c09Sequential(job c09Job) {
	inst, _, err := job.Spec.Build()
	if err != nil {
		panic(err)
	}
	c.Count("sequential/" + job.Kind)
	c.Meta.Evaluations++
	c.Meta.DistinctNontrivial++
	for i, call := range job.Calls {
		reused := doCall(inst, job.Kind, call, 2*time.Second)
		fresh, _, _ := job.Spec.Build()
		want := doCall(fresh, job.Kind, call, 2*time.Second)
		if reused.Hung && want.Hung {
			c.Count("both hang (C03's subject)")
			return // the instance's earlier pipeline is still blocked; nothing more to learn from it
		}
		if d := sameResult(reused, want); d != "" {
			c.Direct(Violation{Subject: job.Type, Kind: "spec_reuse", Detail: fmt.Sprintf("%s: call %d (%s) of %d on one instance: %s", job.Cfg, i+1, call.Kind, len(job.Calls), d), Input: job})
			return
		}
	}
}

type c09ConcResult struct {
	Mismatch string `json:"mismatch,omitempty"`
	Skipped  bool   `json:"skipped,omitempty"`
}

// c09ConcChild: all calls of the job at the same time on one instance.
func c09ConcChild(data []byte) any {
	var job c09Job
	if err := json.Unmarshal(data, &job); err != nil {
		return c09ConcResult{Mismatch: "bad job: " + err.Error()}
	}
	inst, _, err := job.Spec.Build()
	if err != nil {
		return c09ConcResult{Mismatch: "bad spec: " + err.Error()}
	}
	want := make([]callResult, len(job.Calls))
	for i, call := range job.Calls {
		fresh, _, _ := job.Spec.Build()
		want[i] = doCall(fresh, job.Kind, call, 3*time.Second)
		if want[i].Hung {
			return c09ConcResult{Skipped: true}
		}
	}
	for round := 0; round < 3; round++ {
		got := make([]callResult, len(job.Calls))
		var wg sync.WaitGroup
		start := make(chan struct{})
		for i := range job.Calls {
			wg.Add(1)
			go func(i int) {
				defer wg.Done()
				<-start
				got[i] = doCall(inst, job.Kind, job.Calls[i], 10*time.Second)
			}(i)
		}
		close(start)
		wg.Wait()
		for i := range got {
			if d := sameResult(got[i], want[i]); d != "" {
				return c09ConcResult{Mismatch: fmt.Sprintf("concurrent call %d (%s): %s", i+1, job.Calls[i].Kind, d)}
			}
		}
	}
	return c09ConcResult{}
}

func (c *Ctx) c09Concurrent(job c09Job) {
	res := runChildJob("c09-conc", job, true, 120*time.Second)
	c.Count("concurrent/" + job.Kind)
	c.Meta.Evaluations++
	c.Meta.DistinctNontrivial++
	switch {
	case res.Crashed:
		c.Direct(Violation{Subject: job.Type, Kind: "spec_crash", Detail: fmt.Sprintf("%s: concurrent calls on one instance ended the process: %s", job.Cfg, firstLines(res.Stderr, 8)), Input: job})
		return
	case res.TimedOut:
		c.Direct(Violation{Subject: job.Type, Kind: "spec_hang", Detail: job.Cfg + ": concurrent calls on one instance did not finish", Input: job})
		return
	case res.Race:
		c.Direct(Violation{Subject: job.Type, Kind: "spec_race", Detail: fmt.Sprintf("%s: data race with concurrent calls on one instance: %s", job.Cfg, firstLines(res.Stderr, 16)), Input: job})
		return
	}
	var r c09ConcResult
	_ = json.Unmarshal(res.out, &r)
	if r.Skipped {
		c.Count("concurrent skipped: a fresh call hangs (C03's subject)")
	}
	if r.Mismatch != "" {
		c.Direct(Violation{Subject: job.Type, Kind: "spec_reuse", Detail: job.Cfg + ": " + r.Mismatch, Input: job})
	}
}

func (c *Ctx) randC09Job(typeKey, kind string) c09Job {
	sp := c.randSpec(typeKey, 7, 0, c.Rng.IntN(3) != 0)
	inst, cfg, err := sp.Build()
	if err != nil {
		panic(err)
	}
	job := c09Job{Type: typeKey, Kind: kind, Spec: sp, Cfg: cfg}
	idle := 10
	if kind == "indicator" {
		if g := goIdle(inst); g >= 0 {
			idle = g
		}
	} else {
		idle = 30
	}
	t := genTypes[typeKey]
	lens := []int{2*idle + 20 + c.Rng.IntN(20), c.Rng.IntN(idle + 2), 2*idle + 5 + c.Rng.IntN(40), 0}
	lens = append(lens, lens[0])
	c.Rng.Shuffle(3, func(i, j int) { lens[i], lens[j] = lens[j], lens[i] })
	var first c09Call
	for i, n := range lens {
		if i == len(lens)-1 { // the first input again: a remembered value would show
			job.Calls = append(job.Calls, first)
			break
		}
		bars, _ := c.randBars(n)
		var call c09Call
		if kind == "indicator" {
			g1, _ := c.randSeries(n)
			g2, _ := c.randSeries(n)
			ins := inputsFor(t.InNames, bars, [][]float64{g1, g2})
			call = c09Call{Kind: "compute"}
			for _, in := range ins {
				call.Inputs = append(call.Inputs, jsonF(in))
			}
		} else {
			call = c09Call{Kind: "compute", Bars: barsJSON(bars)}
			if t.HasReport && c.Rng.IntN(3) == 0 {
				call.Kind = "report"
			}
		}
		if i == 0 {
			first = call
		}
		job.Calls = append(job.Calls, call)
	}
	return job
}

type c09Row struct {
	Alpha float64 `header:"alpha"`
	Beta  float64 `header:"beta"`
	Gamma string  `header:"gamma"`
}

// c09Csv: one Csv reader over documents whose columns come in different orders.
func (c *Ctx) c09Csv() {
	docs := []string{"alpha,beta,gamma\n1,2,x\n3,4,y\n", "gamma,alpha,beta\nz,5,6\n", "beta,gamma,alpha\n7,w,8\n9,v,10\n", "alpha,beta,gamma\n1,2,x\n"}
	c.Rng.Shuffle(len(docs), func(i, j int) { docs[i], docs[j] = docs[j], docs[i] })
	reused, err := helper.NewCsv[c09Row](true)
	if err != nil {
		panic(err)
	}
	c.Count("sequential/csv")
	c.Meta.Evaluations++
	for i, d := range docs {
		got, ok1 := drainT(reused.ReadFromReader(strings.NewReader(d)), 3*time.Second)
		fresh, _ := helper.NewCsv[c09Row](true)
		want, ok2 := drainT(fresh.ReadFromReader(strings.NewReader(d)), 3*time.Second)
		same := ok1 == ok2 && len(got) == len(want)
		for k := 0; same && k < len(got); k++ {
			same = *got[k] == *want[k]
		}
		if !same {
			c.Direct(Violation{Subject: "helper.Csv", Kind: "spec_reuse", Detail: fmt.Sprintf("document %d of %d read by one Csv value differs from a fresh Csv value: %v vs %v", i+1, len(docs), derefRows(got), derefRows(want)),
				Input: map[string]any{"documents": docs}})
			return
		}
	}
}

func derefRows(xs []*c09Row) []c09Row {
	out := make([]c09Row, len(xs))
	for i, x := range xs {
		out[i] = *x
	}
	return out
}

func runC09(c *Ctx) error {
	c.header = fmt.Sprintf(flowHeader, "Run.ValRun")
	c.Meta.Rule = "every indicator and strategy type (base, compound, decorator, combinators) x sampled configurations: five calls in a row on one instance (long, shorter than warm-up, long, empty, the first input again; " +
		"strategies: Compute and Report mixed) each compared bit for bit with a fresh instance; a Csv reader reused over documents with permuted columns; " +
		"child processes under the race detector: the same calls made at the same time on one instance, three rounds. The static fact (no method writes its receiver) is regenerated and proved in Props/C09.v."
	if c.Replay != "" {
		var raw map[string]any
		if err := readReplayInput(c.Replay, &raw); err != nil {
			return err
		}
		if _, ok := raw["documents"]; ok {
			c.c09Csv()
			return nil
		}
		var job c09Job
		if err := readReplayInput(c.Replay, &job); err != nil {
			return err
		}
		c.c09Sequential(job)
		c.c09Concurrent(job)
		return nil
	}
	reps := c.N(2, 8)
	concEvery := c.N(4, 1) // quick: one type in four goes through the race detector each run (the seed rotates them)
	k := int(c.Seed)
	for _, kind := range []string{"indicator", "strategy"} {
		for _, typeKey := range typeKeys(kind) {
			for r := 0; r < reps; r++ {
				job := c.randC09Job(typeKey, kind)
				c.c09Sequential(job)
				if r == 0 {
					k++
					if k%concEvery == 0 {
						if len(job.Calls) > 3 {
							job.Calls = append(job.Calls[:2], job.Calls[len(job.Calls)-2:]...)
						}
						c.c09Concurrent(job)
					}
				}
			}
		}
	}
	for i := 0; i < 5; i++ {
		c.c09Csv()
	}
	return nil
}
