// C12: asset.Sync.Run on real repositories against the model (Sync/Sync.v) and the property.
// Source: an InMemoryRepository behind a wrapper that injects GetSince failures.  Target: an InMemoryRepository (behind a lock
// when several workers are used: its thread safety is the subject of the separate child scenario below) or a
// FileSystemRepository in a temporary directory, behind a wrapper that injects Append failures.  Sync is run twice on the same
// Sync value; after each run the error result and the contents of every asset (Get) are observed.
// Child scenario "c12-raw": the same run on the bare InMemoryRepository with several workers, repeated, under the race detector.
package main

import (
	"encoding/json"
	"errors"
	"fmt"
	"io"
	"log/slog"
	"os"
	"sort"
	"sync"
	"time"

	"github.com/cinar/indicator/v2/asset"
	"github.com/cinar/indicator/v2/helper"
)

func init() {
	registry["C12"] = runC12
	childRegistry["c12-raw"] = c12RawChild
}

type faultyRepo struct {
	asset.Repository
	failGet map[string]bool
	failApp map[string]bool
	mu      *sync.Mutex // nil: calls go straight through
}

func (f *faultyRepo) lock() func() {
	if f.mu == nil {
		return func() {}
	}
	f.mu.Lock()
	return f.mu.Unlock
}
func (f *faultyRepo) Assets() ([]string, error) { defer f.lock()(); return f.Repository.Assets() }
func (f *faultyRepo) Get(name string) (<-chan *asset.Snapshot, error) {
	defer f.lock()()
	return f.Repository.Get(name)
}
func (f *faultyRepo) GetSince(name string, d time.Time) (<-chan *asset.Snapshot, error) {
	if f.failGet[name] {
		return nil, errors.New("injected read failure")
	}
	defer f.lock()()
	return f.Repository.GetSince(name, d)
}
func (f *faultyRepo) LastDate(name string) (time.Time, error) {
	defer f.lock()()
	return f.Repository.LastDate(name)
}
func (f *faultyRepo) Append(name string, s <-chan *asset.Snapshot) error {
	if f.failApp[name] {
		go helper.Drain(s)
		return errors.New("injected append failure")
	}
	xs := helper.ChanToSlice(s) // receive outside the lock
	defer f.lock()()
	return f.Repository.Append(name, helper.SliceToChan(xs))
}

type c12Job struct {
	Target   string                `json:"target"` // memory | filesystem | memory-raw
	Source   map[string][][]string `json:"source"` // name -> rows [day, open, high, low, close, volume]
	Initial  map[string][][]string `json:"target_before"`
	Explicit []int                 `json:"assets"` // indices into assetNames; empty: all assets of the target
	Default  int64                 `json:"default_start_day"`
	FailGet  []int                 `json:"source_read_fails"`
	FailApp  []int                 `json:"target_append_fails"`
	Workers  int                   `json:"workers"`
	Sorted   bool                  `json:"sources_chronological"`
	Repeat   int                   `json:"repeat,omitempty"`
}

type c12Obs struct {
	Err1, Err2     bool
	After1, After2 []string // Coq terms per name: Some [...] | None
	D1, D2         []string // short descriptions
}

func rowsToSnaps(rows [][]string) []*asset.Snapshot {
	out := make([]*asset.Snapshot, len(rows))
	for i, r := range rows {
		var d int64
		fmt.Sscan(r[0], &d)
		f := parseF(r[1:])
		out[i] = &asset.Snapshot{Date: dayTime(d), Open: f[0], High: f[1], Low: f[2], Close: f[3], Volume: f[4]}
	}
	return out
}

func snapsToRows(xs []*asset.Snapshot) [][]string {
	out := make([][]string, len(xs))
	for i, s := range xs {
		out[i] = append([]string{fmt.Sprint(s.Date.Unix() / 86400)}, jsonF([]float64{s.Open, s.High, s.Low, s.Close, s.Volume})...)
	}
	return out
}

func observeContents(repo asset.Repository) (terms, descr []string) {
	for _, n := range assetNames {
		ch, err := repo.Get(n)
		if err != nil {
			terms, descr = append(terms, "None"), append(descr, n+": error")
			continue
		}
		xs, ok := drainT(ch, 5*time.Second)
		if !ok {
			terms, descr = append(terms, "None"), append(descr, n+": hang")
			continue
		}
		terms, descr = append(terms, "Some "+coqSnaps(xs)), append(descr, fmt.Sprintf("%s: %d", n, len(xs)))
	}
	return
}

func idSet(ids []int) map[string]bool {
	m := map[string]bool{}
	for _, i := range ids {
		m[assetNames[i]] = true
	}
	return m
}

// c12Exec runs the job in this process and returns the observations.
func c12Exec(job c12Job) (c12Obs, error) {
	var obs c12Obs
	srcMem := asset.NewInMemoryRepository()
	for n, rows := range job.Source {
		if err := srcMem.Append(n, helper.SliceToChan(rowsToSnaps(rows))); err != nil {
			return obs, err
		}
	}
	var base asset.Repository
	switch job.Target {
	case "memory", "memory-raw":
		base = asset.NewInMemoryRepository()
	case "filesystem":
		dir, err := os.MkdirTemp("", "verif-c12-")
		if err != nil {
			return obs, err
		}
		defer os.RemoveAll(dir)
		base = asset.NewFileSystemRepository(dir)
	}
	names := make([]string, 0, len(job.Initial))
	for n := range job.Initial {
		names = append(names, n)
	}
	sort.Strings(names)
	for _, n := range names {
		if err := base.Append(n, helper.SliceToChan(rowsToSnaps(job.Initial[n]))); err != nil {
			return obs, err
		}
	}
	var mu *sync.Mutex
	if job.Target == "memory" {
		mu = &sync.Mutex{}
	}
	var srcMu *sync.Mutex
	if job.Target != "memory-raw" {
		srcMu = &sync.Mutex{}
	}
	source := &faultyRepo{Repository: srcMem, failGet: idSet(job.FailGet), mu: srcMu}
	var target asset.Repository = &faultyRepo{Repository: base, failApp: idSet(job.FailApp), mu: mu}
	if job.Target == "memory-raw" && len(job.FailApp) == 0 {
		target = base
	}
	s := asset.NewSync()
	s.Workers, s.Delay = job.Workers, 0
	s.Logger = slog.New(slog.NewTextHandler(io.Discard, nil))
	for _, i := range job.Explicit {
		s.Assets = append(s.Assets, assetNames[i])
	}
	obs.Err1 = s.Run(source, target, dayTime(job.Default)) != nil
	obs.After1, obs.D1 = observeContents(base)
	obs.Err2 = s.Run(source, target, dayTime(job.Default)) != nil
	obs.After2, obs.D2 = observeContents(base)
	return obs, nil
}

// c12RawChild: the bare in-memory repositories with several workers, repeated; the parent looks at how the process ended.
func c12RawChild(data []byte) any {
	var job c12Job
	if err := json.Unmarshal(data, &job); err != nil {
		return map[string]string{"error": err.Error()}
	}
	var last c12Obs
	for i := 0; i < job.Repeat; i++ {
		o, err := c12Exec(job)
		if err != nil {
			return map[string]string{"error": err.Error()}
		}
		last = o
	}
	return last
}

func coqSpecOf(m map[string][][]string) string {
	var items []string
	for k, n := range assetNames {
		if rows, ok := m[n]; ok {
			items = append(items, fmt.Sprintf("(%d%%nat, %s)", k, coqSnaps(rowsToSnaps(rows))))
		}
	}
	return coqList(items)
}

func coqNats(xs []int) string {
	it := make([]string, len(xs))
	for i, x := range xs {
		it[i] = fmt.Sprintf("%d%%nat", x)
	}
	return coqList(it)
}

func (c *Ctx) c12Case(job c12Job) {
	obs, err := c12Exec(job)
	if err != nil {
		panic(err)
	}
	term := fmt.Sprintf("CSync %s %s %s %s %s %s %d%%nat %s %s %s %s %s", coqSpecOf(job.Source), coqSpecOf(job.Initial), coqNats(job.Explicit), coqZ(job.Default),
		coqNats(job.FailGet), coqNats(job.FailApp), job.Workers, coqBool(job.Sorted), coqBool(obs.Err1), coqList(obs.After1), coqBool(obs.Err2), coqList(obs.After2))
	c.Count("target/" + job.Target)
	c.Count(fmt.Sprintf("workers/%d", job.Workers))
	c.Count(fmt.Sprintf("assets requested/%d", len(job.Explicit)))
	c.Count(fmt.Sprintf("failing assets/%d", len(job.FailGet)+len(job.FailApp)))
	if obs.Err1 {
		c.Count("run reported an error")
	}
	c.AddCase(term, CaseInfo{Subject: "asset.Sync/" + job.Target, Desc: fmt.Sprintf("%d workers, assets %v, after run 1 %v err=%v, after run 2 %v err=%v", job.Workers, job.Explicit, obs.D1, obs.Err1, obs.D2, obs.Err2),
		Input: job}, len(job.Source) > 0)
}

func (c *Ctx) randC12Job() c12Job {
	job := c12Job{Source: map[string][][]string{}, Initial: map[string][][]string{}, Sorted: c.Rng.IntN(6) != 0}
	job.Target = []string{"memory", "filesystem"}[c.Rng.IntN(2)]
	job.Workers = []int{1, 1, 2, 3, 8}[c.Rng.IntN(5)]
	base := int64(11000 + c.Rng.IntN(300))
	job.Default = base + int64(c.Rng.IntN(40)) - 5
	for k, n := range assetNames {
		var src []*asset.Snapshot
		if c.Rng.IntN(6) != 0 { // the source knows this asset
			src = c.randSnaps(c.Rng.IntN(12), base, job.Sorted)
			job.Source[n] = snapsToRows(src)
		}
		switch c.Rng.IntN(6) {
		case 0: // target does not know the asset
		case 1: // knows it, no snapshots
			job.Initial[n] = [][]string{}
		case 2, 3: // holds a prefix of the source (the usual situation)
			if len(src) > 0 {
				job.Initial[n] = snapsToRows(src[:c.Rng.IntN(len(src)+1)])
			}
		case 4: // holds older, unrelated snapshots
			job.Initial[n] = snapsToRows(c.randSnaps(1+c.Rng.IntN(4), base-60, true))
		case 5: // holds snapshots that end somewhere inside, or after, the source's range
			job.Initial[n] = snapsToRows(c.randSnaps(1+c.Rng.IntN(4), base+int64(c.Rng.IntN(30)), true))
		}
		if c.Rng.IntN(8) == 0 {
			job.FailGet = append(job.FailGet, k)
		} else if c.Rng.IntN(8) == 0 {
			job.FailApp = append(job.FailApp, k)
		}
	}
	if c.Rng.IntN(4) != 0 {
		for _, k := range c.Rng.Perm(len(assetNames)) {
			if c.Rng.IntN(3) != 0 {
				job.Explicit = append(job.Explicit, k)
			}
		}
	}
	return job
}

func runC12(c *Ctx) error {
	c.header = "From Coq Require Import Floats ZArith List.\nImport ListNotations.\nFrom Verif Require Import Repo.Repo Sync.Sync Run.C10Run Run.C12Run.\nOpen Scope float_scope.\n"
	c.Meta.Rule = "random source and target contents over 4 asset names (asset unknown to the source / to the target, empty, prefix of the source, older, overlapping), " +
		"explicit duplicate-free asset lists in random order or the target's own list, default start date inside or outside the data, injected source-read and target-append failures, " +
		"1/2/3/8 workers, in-memory and file-system targets, two runs on the same Sync value; whole days. Child scenario: bare InMemoryRepository with 4 workers under the race detector."
	if c.Replay != "" {
		var job c12Job
		if err := readReplayInput(c.Replay, &job); err != nil {
			return err
		}
		if job.Target == "memory-raw" {
			c.c12Raw(job)
		} else {
			c.c12Case(job)
		}
		return nil
	}
	for i := 0; i < c.N(150, 1500); i++ {
		c.c12Case(c.randC12Job())
	}
	for i := 0; i < c.N(3, 12); i++ {
		job := c.randC12Job()
		job.Target, job.Workers, job.Repeat = "memory-raw", 4, 20
		job.FailApp = nil
		job.Explicit = []int{0, 1, 2, 3}
		c.c12Raw(job)
	}
	return nil
}

// c12Raw: several workers on the bare in-memory repositories. A crash of the process ("concurrent map writes") or a report of the
// race detector is a violation of "the result does not depend on the number of workers" in its plainest form.
func (c *Ctx) c12Raw(job c12Job) {
	res := runChildJob("c12-raw", job, true, 120*time.Second)
	c.Count("child runs/memory-raw")
	c.Meta.Evaluations++
	c.Meta.DistinctNontrivial++
	switch {
	case res.Crashed:
		c.Direct(Violation{Subject: "asset.Sync/InMemoryRepository", Kind: "spec_crash", Detail: fmt.Sprintf("Sync.Run with %d workers on an InMemoryRepository target ended the process: %s", job.Workers, firstLines(res.Stderr, 6)), Input: job})
	case res.Race:
		c.Direct(Violation{Subject: "asset.Sync/InMemoryRepository", Kind: "spec_race", Detail: fmt.Sprintf("data race in Sync.Run with %d workers: %s", job.Workers, firstLines(res.Stderr, 14)), Input: job})
	case res.TimedOut:
		c.Direct(Violation{Subject: "asset.Sync/InMemoryRepository", Kind: "spec_hang", Detail: "Sync.Run did not return", Input: job})
	}
}

func firstLines(s string, n int) string {
	out := ""
	for i, l := range splitLines(s) {
		if i >= n {
			break
		}
		out += l + " | "
	}
	return out
}

func splitLines(s string) []string {
	var out []string
	cur := ""
	for _, r := range s {
		if r == '\n' {
			out = append(out, cur)
			cur = ""
		} else {
			cur += string(r)
		}
	}
	if cur != "" {
		out = append(out, cur)
	}
	return out
}
