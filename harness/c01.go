// C01 (model tie): values of every output of every indicator, bit-for-bit against the regenerated model.
package main

import "fmt"

func init() { registry["C01"] = runC01 }

// goldMode: indicator cases carry the frozen reference next to the regenerated model (C01)
var goldMode bool

func runC01(c *Ctx) error {
	c.header = fmt.Sprintf(flowHeader, "Spec.IndicatorGolden Run.C01Run")
	c.perFile = 60
	c.caseType = "gcase"
	goldMode = true
	defer func() { goldMode = false }()
	c.Meta.Rule = "every indicator type x sampled configurations (default, With-constructors, random periods 1..8) x series lengths around " +
		"the warm-up and longer; regimes walk/flat/ties/up/down/zero-volume/spiky (OHLCV) and walk/zeros/negative/ties/flat/monotone/small-int (plain); " +
		"observable = every value on every output, compared bit-for-bit (NaNs identified) with the model evaluated in Coq at binary64."
	if c.Replay != "" {
		var raw map[string]any
		if err := readReplayInput(c.Replay, &raw); err == nil {
			if _, ok := raw["doc_witness"]; ok {
				c.c01DocWitnesses()
				return nil
			}
		}
		var in indInput
		if err := readReplayInput(c.Replay, &in); err != nil {
			return err
		}
		c.replayInd(in, true)
		return nil
	}
	c.c01DocWitnesses()
	cfgs := c.N(3, 10)
	for _, typeKey := range typeKeys("indicator") {
		for k := 0; k < cfgs; k++ {
			sp := c.randSpec(typeKey, 7, 0, k > 0)
			inst, _, err := sp.Build()
			if err != nil {
				return err
			}
			idle := goIdle(inst)
			if idle < 0 {
				idle = 8
			}
			if idle > 60 {
				idle = 60
			}
			lens := []int{idle + 1, idle + 2 + c.Rng.IntN(6), 2*idle + 5 + c.Rng.IntN(10), 40 + c.Rng.IntN(40)}
			if c.Thorough() {
				lens = append(lens, 0, idle, 150+c.Rng.IntN(150), 60+c.Rng.IntN(60))
			}
			for _, n := range lens {
				if c.indCase(typeKey, sp, n, true) {
					break
				}
			}
		}
	}
	return nil
}
