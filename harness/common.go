// Shared plumbing of the correspondence harness: PRNG, Coq term printers, case files, meta.json.
package main

import (
	"crypto/sha256"
	"encoding/hex"
	"encoding/json"
	"fmt"
	"math"
	"math/rand/v2"
	"os"
	"path/filepath"
	"sort"
	"strconv"
	"strings"
)

// Ctx is the state of one harness run.
type Ctx struct {
	Prop   string
	Seed   uint64
	Tier   string
	Out    string
	Replay string
	Rng    *rand.Rand

	header   string   // Coq preamble of every case file
	caseType string   // Coq type of a case (default "case")
	cases    []string // Coq terms, one per case
	infos    []CaseInfo
	perFile  int

	Meta Meta
	seen map[string]bool
}

// CaseInfo describes one generated case (index-aligned with the Coq case list).
type CaseInfo struct {
	Subject string `json:"subject"`
	Desc    string `json:"desc"`
	Input   any    `json:"input,omitempty"`
}

// Violation is a property failure found directly on the implementation by the harness.
type Violation struct {
	Subject string `json:"subject"`
	Kind    string `json:"kind"`
	Detail  string `json:"detail"`
	Input   any    `json:"input,omitempty"`
}

// Meta is what the harness reports about its own run.
type Meta struct {
	Prop               string         `json:"prop"`
	Seed               uint64         `json:"seed"`
	Tier               string         `json:"tier"`
	Evaluations        int            `json:"evaluations"`
	DistinctNontrivial int            `json:"distinct_nontrivial"`
	Rule               string         `json:"rule"`
	Samples            []any          `json:"samples"`
	Distribution       map[string]int `json:"distribution"`
	Direct             []Violation    `json:"direct_violations"`
	Notes              []string       `json:"notes"`
	Shards             []Shard        `json:"shards"`
	Cases              []CaseInfo     `json:"cases"`
}

// Shard is one Coq case file and the global index of its first case.
type Shard struct {
	File   string `json:"file"`
	Offset int    `json:"offset"`
	Count  int    `json:"count"`
}

func newCtx(prop string, seed uint64, tier, out, replay string) *Ctx {
	c := &Ctx{Prop: prop, Seed: seed, Tier: tier, Out: out, Replay: replay, perFile: 400, seen: map[string]bool{}}
	c.Rng = rand.New(rand.NewPCG(seed, 0x9e3779b97f4a7c15^uint64(len(prop))*7919+hashStr(prop)))
	c.Meta = Meta{Prop: prop, Seed: seed, Tier: tier, Distribution: map[string]int{}, Samples: []any{}, Direct: []Violation{}, Notes: []string{}}
	return c
}

func hashStr(s string) uint64 {
	h := sha256.Sum256([]byte(s))
	var x uint64
	for i := 0; i < 8; i++ {
		x = x<<8 | uint64(h[i])
	}
	return x
}

// Thorough reports whether the thorough tier was requested.
func (c *Ctx) Thorough() bool { return c.Tier == "thorough" }

// N picks a count depending on the tier.
func (c *Ctx) N(quick, thorough int) int {
	if c.Thorough() {
		return thorough
	}
	return quick
}

// Count adds to a distribution bucket.
func (c *Ctx) Count(bucket string) { c.Meta.Distribution[bucket]++ }

// AddCase registers a case. nontrivial: counts toward distinct_nontrivial when its term is new.
func (c *Ctx) AddCase(term string, info CaseInfo, nontrivial bool) {
	c.cases = append(c.cases, term)
	c.infos = append(c.infos, info)
	c.Meta.Evaluations++
	if nontrivial {
		h := sha256.Sum256([]byte(term))
		k := hex.EncodeToString(h[:8])
		if !c.seen[k] {
			c.seen[k] = true
			c.Meta.DistinctNontrivial++
		}
	}
	if len(c.Meta.Samples) < 4 && nontrivial && c.Rng.IntN(8) == 0 || len(c.Meta.Samples) == 0 && nontrivial {
		c.Meta.Samples = append(c.Meta.Samples, map[string]any{"subject": info.Subject, "desc": info.Desc, "input": info.Input})
	}
}

// Direct records a violation observed on the implementation alone.
func (c *Ctx) Direct(v Violation) {
	if len(c.Meta.Direct) < 50 {
		c.Meta.Direct = append(c.Meta.Direct, v)
	}
}

// Flush writes the Coq case files and meta.json.
func (c *Ctx) Flush() error {
	for _, k := range typesWithoutConstructor {
		c.Meta.Notes = append(c.Meta.Notes, "no translated constructor for "+k+": the type was left out of this run")
	}
	if err := os.MkdirAll(c.Out, 0o755); err != nil {
		return err
	}
	old, _ := filepath.Glob(filepath.Join(c.Out, "cases_*"))
	for _, f := range old {
		os.Remove(f)
	}
	for off, k := 0, 0; off < len(c.cases); off, k = off+c.perFile, k+1 {
		end := off + c.perFile
		if end > len(c.cases) {
			end = len(c.cases)
		}
		name := fmt.Sprintf("cases_%03d.v", k)
		var b strings.Builder
		b.WriteString(c.header)
		ct := c.caseType
		if ct == "" {
			ct = "case"
		}
		b.WriteString("\nDefinition cases : list " + ct + " := [\n")
		for i := off; i < end; i++ {
			b.WriteString("  ")
			b.WriteString(c.cases[i])
			if i+1 < end {
				b.WriteString(";")
			}
			b.WriteString("\n")
		}
		b.WriteString("].\nDefinition M := Eval vm_compute in mismatches cases.\nPrint M.\n")
		if err := os.WriteFile(filepath.Join(c.Out, name), []byte(b.String()), 0o644); err != nil {
			return err
		}
		c.Meta.Shards = append(c.Meta.Shards, Shard{File: name, Offset: off, Count: end - off})
	}
	c.Meta.Cases = c.infos
	data, err := json.MarshalIndent(c.Meta, "", " ")
	if err != nil {
		return err
	}
	return os.WriteFile(filepath.Join(c.Out, "meta.json"), data, 0o644)
}

// ---- Coq term printers ----------------------------------------------------------------

func coqZ(v int64) string {
	if v < 0 {
		return "(" + strconv.FormatInt(v, 10) + ")%Z"
	}
	return strconv.FormatInt(v, 10) + "%Z"
}

func coqNat(v int) string { return strconv.Itoa(v) }

func coqBool(b bool) string {
	if b {
		return "true"
	}
	return "false"
}

// coqF prints a float64 as an exact Coq primitive-float term.
func coqF(x float64) string {
	switch {
	case math.IsNaN(x):
		return "nan"
	case math.IsInf(x, 1):
		return "infinity"
	case math.IsInf(x, -1):
		return "neg_infinity"
	case x == 0 && math.Signbit(x):
		return "neg_zero"
	case x == 0:
		return "zero"
	}
	s := strconv.FormatFloat(x, 'x', -1, 64)
	if x < 0 {
		return "(" + s + ")%float"
	}
	return s + "%float"
}

func coqList(items []string) string { return "[" + strings.Join(items, "; ") + "]" }

func coqListF(xs []float64) string {
	it := make([]string, len(xs))
	for i, x := range xs {
		it[i] = coqF(x)
	}
	return coqList(it)
}

func coqListZ(xs []int64) string {
	it := make([]string, len(xs))
	for i, x := range xs {
		it[i] = coqZ(x)
	}
	return coqList(it)
}

func sortedKeys(m map[string]int) []string {
	ks := make([]string, 0, len(m))
	for k := range m {
		ks = append(ks, k)
	}
	sort.Strings(ks)
	return ks
}

// jsonF renders floats for JSON descriptions (NaN/Inf are not valid JSON numbers).
func jsonF(xs []float64) []string {
	out := make([]string, len(xs))
	for i, x := range xs {
		out[i] = strconv.FormatFloat(x, 'g', -1, 64)
	}
	return out
}

// readReplayInput loads the "input" member of a replay file into v.
func readReplayInput(path string, v any) error {
	data, err := os.ReadFile(path)
	if err != nil {
		return err
	}
	var wrap struct {
		Input json.RawMessage `json:"input"`
	}
	if err := json.Unmarshal(data, &wrap); err != nil {
		return err
	}
	return json.Unmarshal(wrap.Input, v)
}
