// Child processes: scenarios that can crash the process (fatal "concurrent map writes", deadlock) or that must run under the
// race detector are run in a child of the harness, so that a crash is an observation and not the end of the run.
// "harness CHILD <scenario>" reads a JSON job on stdin and writes a JSON result on stdout.  When VERIF_RACE_EXE names a build of
// this same program with -race, runChildJob uses it on request: a report of the race detector (exit code 66, "DATA RACE" on
// stderr) is then part of the observation.
package main

import (
	"bytes"
	"encoding/json"
	"fmt"
	"os"
	"os/exec"
	"strings"
	"time"
)

var childRegistry = map[string]func(job []byte) any{}

func runChildMain() {
	if len(os.Args) < 3 {
		os.Exit(2)
	}
	fn, ok := childRegistry[os.Args[2]]
	if !ok {
		fmt.Fprintln(os.Stderr, "unknown child scenario", os.Args[2])
		os.Exit(2)
	}
	var buf bytes.Buffer
	_, _ = buf.ReadFrom(os.Stdin)
	res := fn(buf.Bytes())
	_ = json.NewEncoder(os.Stdout).Encode(res)
}

type childOutcome struct {
	Crashed  bool   `json:"crashed"`   // non-zero exit other than the race detector's
	Race     bool   `json:"race"`      // the race detector reported
	TimedOut bool   `json:"timed_out"` // killed after the limit
	Stderr   string `json:"stderr,omitempty"`
	out      []byte
}

// runChildJob runs one scenario in a child process. race selects the -race build (when one was provided).
func runChildJob(scenario string, job any, race bool, limit time.Duration) childOutcome {
	data, _ := json.Marshal(job)
	exe := os.Args[0]
	if race && os.Getenv("VERIF_RACE_EXE") != "" {
		exe = os.Getenv("VERIF_RACE_EXE")
	}
	cmd := exec.Command(exe, "CHILD", scenario)
	cmd.Stdin = bytes.NewReader(data)
	cmd.Env = append(os.Environ(), "GORACE=halt_on_error=0 exitcode=66")
	var out, errb bytes.Buffer
	cmd.Stdout, cmd.Stderr = &out, &errb
	done := make(chan error, 1)
	if err := cmd.Start(); err != nil {
		return childOutcome{Crashed: true, Stderr: err.Error()}
	}
	go func() { done <- cmd.Wait() }()
	var res childOutcome
	select {
	case err := <-done:
		se := errb.String()
		res.Race = strings.Contains(se, "DATA RACE")
		if err != nil && !(res.Race && cmd.ProcessState != nil && cmd.ProcessState.ExitCode() == 66) {
			res.Crashed = true
		}
		if len(se) > 4000 {
			se = se[:4000]
		}
		if res.Race || res.Crashed {
			res.Stderr = se
		}
	case <-time.After(limit):
		_ = cmd.Process.Kill()
		<-done
		res.TimedOut = true
	}
	res.out = out.Bytes()
	return res
}

func haveRaceExe() bool { return os.Getenv("VERIF_RACE_EXE") != "" }
