// C10: random operation histories on the three repository implementations against the map specification.
package main

import (
	"fmt"
	"os"
	"path/filepath"
	"sort"
	"strings"
	"time"

	"github.com/cinar/indicator/v2/asset"
	"github.com/cinar/indicator/v2/helper"
)

func init() { registry["C10"] = runC10 }

type repoOp struct {
	Kind  string     `json:"op"`
	Name  int        `json:"name"`
	Day   int64      `json:"day,omitempty"`
	Snaps [][]string `json:"snapshots,omitempty"` // [day, open, high, low, close, volume]
	snaps []*asset.Snapshot
}

type c10Input struct {
	Impl    string   `json:"implementation"`
	Initial []string `json:"pre_existing_files"`
	Ops     []repoOp `json:"history"`
	Obs     []string `json:"observations"`
}

var assetNames = []string{"aapl", "brk.b", "x", "long-name_1"}

func dayTime(d int64) time.Time { return time.Unix(d*86400, 0).UTC() }

func coqSnap(s *asset.Snapshot) string {
	return fmt.Sprintf("(%s, %s)", coqZ(s.Date.Unix()/86400), coqListF([]float64{s.Open, s.High, s.Low, s.Close, s.Volume}))
}

func coqSnaps(xs []*asset.Snapshot) string {
	it := make([]string, len(xs))
	for i, s := range xs {
		it[i] = coqSnap(s)
	}
	return coqList(it)
}

func (c *Ctx) randSnaps(n int, fromDay int64, sorted bool) []*asset.Snapshot {
	out := make([]*asset.Snapshot, n)
	d := fromDay
	for i := range out {
		if sorted {
			d += int64(1 + c.Rng.IntN(3))
		} else {
			d = fromDay + int64(c.Rng.IntN(40))
		}
		f := func() float64 {
			switch c.Rng.IntN(6) {
			case 0:
				return 0
			case 1:
				return float64(c.Rng.IntN(1000)) / 8
			case 2:
				return c.Rng.Float64() * 1e-7
			case 3:
				return c.Rng.Float64() * 1e12
			default:
				return c.Rng.NormFloat64() * 100
			}
		}
		out[i] = &asset.Snapshot{Date: dayTime(d), Open: f(), High: f(), Low: f(), Close: f(), Volume: f()}
	}
	return out
}

func obsOf(ch <-chan *asset.Snapshot, err error) (string, string) {
	if err != nil {
		return "RErr", "error: " + err.Error()
	}
	xs, ok := drainT(ch, 5*time.Second)
	if !ok {
		return "RErr", "hang"
	}
	return "RVals " + coqSnaps(xs), fmt.Sprintf("%d snapshots", len(xs))
}

func (c *Ctx) c10Case(impl string, initial map[int]string, ops []repoOp) {
	var repo asset.Repository
	coqImpl := ""
	var cleanup func()
	switch impl {
	case "memory":
		repo, coqImpl = asset.NewInMemoryRepository(), "IMemory"
	case "filesystem":
		dir, err := os.MkdirTemp("", "verif-c10-")
		if err != nil {
			panic(err)
		}
		cleanup = func() { os.RemoveAll(dir) }
		for k, kind := range initial {
			content := ""
			if kind == "header" {
				content = "Date,Open,High,Low,Close,Volume\n"
			}
			if err := os.WriteFile(filepath.Join(dir, assetNames[k]+".csv"), []byte(content), 0o644); err != nil {
				panic(err)
			}
		}
		repo, coqImpl = asset.NewFileSystemRepository(dir), "IFileSystem"
	case "sql":
		dsn := fmt.Sprintf("db-%d-%d", c.Seed, c.Meta.Evaluations)
		r, err := asset.NewSQLRepository("verif-fake", dsn, fakeDialect{})
		if err != nil {
			panic(err)
		}
		cleanup = func() { r.Close(); fakeDBs.Delete(dsn) }
		repo, coqImpl = r, "ISql"
	}
	if cleanup != nil {
		defer cleanup()
	}
	var terms, obs, descr []string
	for _, o := range ops {
		name := assetNames[o.Name]
		switch o.Kind {
		case "append":
			err := repo.Append(name, helper.SliceToChan(o.snaps))
			terms = append(terms, fmt.Sprintf("OAppend %d%%nat %s", o.Name, coqSnaps(o.snaps)))
			if err != nil {
				obs, descr = append(obs, "RErr"), append(descr, "append error: "+err.Error())
			} else {
				obs, descr = append(obs, "RUnit"), append(descr, "ok")
			}
		case "get":
			ch, err := repo.Get(name)
			t, d := obsOf(ch, err)
			terms, obs, descr = append(terms, fmt.Sprintf("OGet %d%%nat", o.Name)), append(obs, t), append(descr, d)
		case "getsince":
			ch, err := repo.GetSince(name, dayTime(o.Day))
			t, d := obsOf(ch, err)
			terms, obs, descr = append(terms, fmt.Sprintf("OGetSince %d%%nat %s", o.Name, coqZ(o.Day))), append(obs, t), append(descr, d)
		case "lastdate":
			dt, err := repo.LastDate(name)
			terms = append(terms, fmt.Sprintf("OLastDate %d%%nat", o.Name))
			if err != nil {
				obs, descr = append(obs, "RErr"), append(descr, "error: "+err.Error())
			} else {
				obs, descr = append(obs, "RDate "+coqZ(dt.Unix()/86400)), append(descr, dt.Format("2006-01-02"))
			}
		case "assets":
			names, err := repo.Assets()
			terms = append(terms, "OAssets")
			if err != nil {
				obs, descr = append(obs, "RErr"), append(descr, "error: "+err.Error())
			} else {
				var ids []int
				for _, n := range names {
					id := -1
					for k, an := range assetNames {
						if an == n {
							id = k
						}
					}
					ids = append(ids, id+0)
				}
				sort.Ints(ids)
				parts := make([]string, len(ids))
				for i, id := range ids {
					parts[i] = fmt.Sprintf("%d%%nat", id)
				}
				obs, descr = append(obs, "RNames "+coqList(parts)), append(descr, strings.Join(names, ","))
			}
		}
	}
	var init []string
	var initDescr []string
	keys := make([]int, 0, len(initial))
	for k := range initial {
		keys = append(keys, k)
	}
	sort.Ints(keys)
	for _, k := range keys {
		if initial[k] == "header" {
			init = append(init, fmt.Sprintf("(%d%%nat, FRows [])", k))
		} else {
			init = append(init, fmt.Sprintf("(%d%%nat, FZero)", k))
		}
		initDescr = append(initDescr, fmt.Sprintf("%s.csv:%s", assetNames[k], initial[k]))
	}
	term := fmt.Sprintf("CRepo %s %s %s %s", coqImpl, coqList(init), coqList(terms), coqList(obs))
	c.Count("impl/" + impl)
	for _, o := range ops {
		c.Count("op/" + o.Kind)
	}
	for _, d := range descr {
		if strings.HasPrefix(d, "error") {
			c.Count("obs/error")
		}
	}
	c.AddCase(term, CaseInfo{Subject: "repository/" + impl, Desc: fmt.Sprintf("%s: %d ops, initial %v", impl, len(ops), initDescr),
		Input: c10Input{Impl: impl, Initial: initDescr, Ops: ops, Obs: descr}}, len(ops) >= 3)
}

func (c *Ctx) randHistory(n int, sortedDates bool) []repoOp {
	ops := make([]repoOp, n)
	nextDay := map[int]int64{}
	for i := range ops {
		name := c.Rng.IntN(len(assetNames))
		kinds := []string{"append", "append", "get", "getsince", "lastdate", "assets", "append", "get"}
		k := kinds[c.Rng.IntN(len(kinds))]
		o := repoOp{Kind: k, Name: name}
		switch k {
		case "append":
			cnt := c.Rng.IntN(5)
			if c.Rng.IntN(8) == 0 {
				cnt = 0
			}
			from := nextDay[name]
			if from == 0 {
				from = 11000 + int64(c.Rng.IntN(300))
			}
			o.snaps = c.randSnaps(cnt, from, sortedDates)
			for _, s := range o.snaps {
				d := s.Date.Unix() / 86400
				if d >= nextDay[name] {
					nextDay[name] = d
				}
				o.Snaps = append(o.Snaps, append([]string{fmt.Sprint(d)}, jsonF([]float64{s.Open, s.High, s.Low, s.Close, s.Volume})...))
			}
		case "getsince":
			o.Day = 11000 + int64(c.Rng.IntN(400))
			if nextDay[name] > 0 && c.Rng.IntN(2) == 0 {
				o.Day = nextDay[name] - int64(c.Rng.IntN(4)) // on or near a stored date: the boundary is >=
			}
		}
		ops[i] = o
	}
	return ops
}

func runC10(c *Ctx) error {
	c.header = "From Coq Require Import Floats ZArith List.\nImport ListNotations.\nFrom Verif Require Import Repo.Repo Run.C10Run.\nOpen Scope float_scope.\n"
	c.perFile = 60
	c.Meta.Rule = "random histories (3..25 operations; Append of 0..4 snapshots, Get, GetSince with bounds on / near stored dates, LastDate, Assets) over 4 asset names " +
		"(one containing a dot) on the in-memory repository, the file-system repository (fresh temporary directory, optionally with pre-existing zero-byte or header-only files) " +
		"and the SQL repository over a conforming in-memory driver; snapshot values: zeros, dyadic, tiny, huge, normal; dates whole UTC days from 2000 on, both increasing and back-filled."
	if c.Replay != "" {
		var in c10Input
		if err := readReplayInput(c.Replay, &in); err != nil {
			return err
		}
		for i := range in.Ops {
			for _, s := range in.Ops[i].Snaps {
				f := parseF(s[1:])
				var d int64
				fmt.Sscan(s[0], &d)
				in.Ops[i].snaps = append(in.Ops[i].snaps, &asset.Snapshot{Date: dayTime(d), Open: f[0], High: f[1], Low: f[2], Close: f[3], Volume: f[4]})
			}
		}
		initial := map[int]string{}
		for _, s := range in.Initial {
			parts := strings.Split(s, ".csv:")
			for k, an := range assetNames {
				if an == parts[0] {
					initial[k] = parts[1]
				}
			}
		}
		c.c10Case(in.Impl, initial, in.Ops)
		return nil
	}
	for i := 0; i < c.N(60, 600); i++ {
		ops := c.randHistory(3+c.Rng.IntN(23), c.Rng.IntN(3) != 0)
		initial := map[int]string{}
		if c.Rng.IntN(3) == 0 {
			initial[c.Rng.IntN(len(assetNames))] = []string{"zero", "header"}[c.Rng.IntN(2)]
		}
		c.c10Case("memory", nil, ops)
		c.c10Case("filesystem", initial, ops)
		c.c10Case("sql", nil, ops)
	}
	return nil
}
