// C03: pipelines never deadlock or leak and are schedule-independent.
// Part 1 (helper models): random pipelines over the description language of coq/Kahn/Helpers.v are built from the REAL helpers
//
//	(SliceToChan or a buffered producer, Map, Buffered, Duplicate, Operate, Operate3, Skip, Shift, First, Head, readers) and run
//	until every goroutine of the pipeline has finished or is blocked on a channel for good (decided from the goroutine dump, not
//	from a time-out); the Coq side runs the denoted Kahn network once and compares readers finished / values received / goroutines left.
//
// Part 2 (the library's own pipelines): every indicator and strategy under variants of input channel capacity, producer and
//
//	consumer pacing, reader order and GOMAXPROCS, with input lengths 0, below the warm-up, unequal, long: same values as the
//	regenerated model, every output closed, no goroutine left (when the configuration is admissible; evaluated inside Coq).
package main

import (
	"encoding/json"
	"fmt"
	"os"
	"path/filepath"
	"reflect"
	"regexp"
	"runtime"
	"strconv"
	"strings"
	"sync"
	"sync/atomic"
	"time"

	"github.com/cinar/indicator/v2/asset"
	"github.com/cinar/indicator/v2/helper"
	"github.com/cinar/indicator/v2/trend"
	"github.com/cinar/indicator/v2/volume"
)

func init() { registry["C03"] = runC03 }

// ---- goroutine census ------------------------------------------------------------------------------------------

// goroutine states in which nothing happens until another goroutine acts
var blockedStates = map[string]bool{"chan receive": true, "chan send": true, "select": true, "semacquire": true, "sync.WaitGroup.Wait": true,
	"sync.Mutex.Lock": true, "sync.RWMutex.Lock": true, "sync.RWMutex.RLock": true, "sync.Cond.Wait": true,
	"chan receive (nil chan)": true, "chan send (nil chan)": true, "select (no cases)": true}

var gHeader = regexp.MustCompile(`^goroutine (\d+) \[([^\],]+)`)

// census returns, for every goroutine that runs library code or one of this file's producers/readers, its state.
var censusBuf = make([]byte, 1<<20)

func census() map[int]string {
	n := runtime.Stack(censusBuf, true)
	for n == len(censusBuf) {
		censusBuf = make([]byte, 2*len(censusBuf))
		n = runtime.Stack(censusBuf, true)
	}
	buf := censusBuf
	out := map[int]string{}
	for _, g := range strings.Split(string(buf[:n]), "\n\n") {
		if !(strings.Contains(g, "github.com/cinar/indicator/v2/") || strings.Contains(g, "main.c03Producer") || strings.Contains(g, "main.c03Reader")) {
			continue
		}
		if strings.Contains(g, "main.census") { // the goroutine taking the census
			continue
		}
		m := gHeader.FindStringSubmatch(g)
		if m == nil {
			continue
		}
		id, _ := strconv.Atoi(m[1])
		out[id] = m[2]
	}
	return out
}

// settle waits until the goroutines that did not exist in [before] have all finished, or are all blocked on channel
// operations and stay exactly so over several looks. It returns how many remain.
func settle(before map[int]string, done func() bool) (left int) {
	deadline := time.Now().Add(20 * time.Second)
	var prev string
	stable := 0
	// most pipelines simply finish: wait for the readers a little before looking at goroutine dumps
	for i := 0; i < 200 && !done(); i++ {
		runtime.Gosched()
		if i > 20 {
			time.Sleep(50 * time.Microsecond)
		}
	}
	for time.Now().Before(deadline) {
		cur := census()
		var desc []string
		blocked := true
		left = 0
		for id, st := range cur {
			if _, old := before[id]; old {
				continue
			}
			left++
			desc = append(desc, fmt.Sprintf("%d:%s", id, st))
			if !blockedStates[st] {
				blocked = false
			}
		}
		if left == 0 && done() {
			return 0
		}
		sortStrings(desc)
		sig := strings.Join(desc, ",")
		if blocked && left > 0 && sig == prev {
			stable++
			if stable >= 4 {
				return left
			}
		} else {
			stable = 0
		}
		prev = sig
		runtime.Gosched()
		time.Sleep(time.Duration(200+100*stable) * time.Microsecond)
	}
	if os.Getenv("C03_DEBUG") != "" {
		fmt.Fprintf(os.Stderr, "c03: not quiescent at the deadline: %s\n", prev)
	}
	return left
}

func sortStrings(xs []string) {
	for i := 1; i < len(xs); i++ {
		for j := i; j > 0 && xs[j] < xs[j-1]; j-- {
			xs[j], xs[j-1] = xs[j-1], xs[j]
		}
	}
}

// ---- part 1: pipelines over the description language ------------------------------------------------------------

type c03Node struct {
	Kind  string `json:"kind"`
	In    []int  `json:"in,omitempty"`
	Out   []int  `json:"out,omitempty"`
	Count int    `json:"count,omitempty"`
	Fill  int    `json:"fill,omitempty"`
	Xs    []int  `json:"values,omitempty"`
}

type c03Desc struct {
	Nodes []c03Node `json:"nodes"`
	Caps  []int     `json:"capacities"`
}

func c03Producer(ch chan float64, xs []int) {
	defer close(ch)
	for _, x := range xs {
		ch <- float64(x)
	}
}

func c03Reader(ch <-chan float64, into *[]int, wg *sync.WaitGroup, finished *atomic.Int32) {
	defer wg.Done()
	for v := range ch {
		*into = append(*into, int(v))
	}
	finished.Add(1)
}

// runDesc builds the pipeline from the real helpers and runs it to quiescence.
func runDesc(d c03Desc) (readersFinished, clean bool, received [][]int) {
	before := census()
	chans := make([]<-chan float64, len(d.Caps))
	var wg sync.WaitGroup
	var finished atomic.Int32
	readers := 0
	var sinks []*[]int
	for _, nd := range d.Nodes {
		switch nd.Kind {
		case "source":
			xs := make([]float64, len(nd.Xs))
			for i, x := range nd.Xs {
				xs[i] = float64(x)
			}
			if d.Caps[nd.Out[0]] == 0 {
				chans[nd.Out[0]] = helper.SliceToChan(xs)
			} else {
				ch := make(chan float64, d.Caps[nd.Out[0]])
				go c03Producer(ch, nd.Xs)
				chans[nd.Out[0]] = ch
			}
		case "map":
			chans[nd.Out[0]] = helper.Map(chans[nd.In[0]], func(x float64) float64 { return x + 1 })
		case "buffered":
			chans[nd.Out[0]] = helper.Buffered(chans[nd.In[0]], d.Caps[nd.Out[0]])
		case "dup":
			outs := helper.Duplicate(chans[nd.In[0]], len(nd.Out))
			for i, o := range nd.Out {
				chans[o] = outs[i]
			}
		case "operate":
			chans[nd.Out[0]] = helper.Operate(chans[nd.In[0]], chans[nd.In[1]], func(a, b float64) float64 { return a + b })
		case "operate3":
			chans[nd.Out[0]] = helper.Operate3(chans[nd.In[0]], chans[nd.In[1]], chans[nd.In[2]], func(a, b, c float64) float64 { return a + b + c })
		case "skip":
			chans[nd.Out[0]] = helper.Skip(chans[nd.In[0]], nd.Count)
		case "shift":
			chans[nd.Out[0]] = helper.Shift(chans[nd.In[0]], nd.Count, float64(nd.Fill))
		case "first":
			chans[nd.Out[0]] = helper.First(chans[nd.In[0]], nd.Count)
		case "head":
			chans[nd.Out[0]] = helper.Head(chans[nd.In[0]], nd.Count)
		case "sink":
			got := &[]int{}
			sinks = append(sinks, got)
			readers++
			wg.Add(1)
			go c03Reader(chans[nd.In[0]], got, &wg, &finished)
		}
	}
	left := settle(before, func() bool { return int(finished.Load()) == readers })
	readersFinished = int(finished.Load()) == readers
	if readersFinished {
		for _, s := range sinks {
			received = append(received, append([]int{}, *s...))
		}
	}
	return readersFinished, left == 0, received
}

func (d c03Desc) coq() string {
	var ns []string
	nat := func(i int) string { return fmt.Sprintf("%d%%nat", i) }
	for _, nd := range d.Nodes {
		switch nd.Kind {
		case "source":
			ns = append(ns, fmt.Sprintf("NSource %s %s", nat(nd.Out[0]), coqNats(nd.Xs)))
		case "map":
			ns = append(ns, fmt.Sprintf("NMap %s %s", nat(nd.In[0]), nat(nd.Out[0])))
		case "buffered":
			ns = append(ns, fmt.Sprintf("NBuffered %s %s", nat(nd.In[0]), nat(nd.Out[0])))
		case "dup":
			ns = append(ns, fmt.Sprintf("NDup %s %s", nat(nd.In[0]), coqNats(nd.Out)))
		case "operate":
			ns = append(ns, fmt.Sprintf("NOperate %s %s %s", nat(nd.In[0]), nat(nd.In[1]), nat(nd.Out[0])))
		case "operate3":
			ns = append(ns, fmt.Sprintf("NOperate3 %s %s %s %s", nat(nd.In[0]), nat(nd.In[1]), nat(nd.In[2]), nat(nd.Out[0])))
		case "skip":
			ns = append(ns, fmt.Sprintf("NSkip %s %s %s", nat(nd.In[0]), nat(nd.Out[0]), nat(nd.Count)))
		case "shift":
			ns = append(ns, fmt.Sprintf("NShift %s %s %s %s", nat(nd.In[0]), nat(nd.Out[0]), nat(nd.Count), nat(nd.Fill)))
		case "first":
			ns = append(ns, fmt.Sprintf("NFirst %s %s %s", nat(nd.In[0]), nat(nd.Out[0]), nat(nd.Count)))
		case "head":
			ns = append(ns, fmt.Sprintf("NHead %s %s %s", nat(nd.In[0]), nat(nd.Out[0]), nat(nd.Count)))
		case "sink":
			ns = append(ns, fmt.Sprintf("NSink %s", nat(nd.In[0])))
		}
	}
	return fmt.Sprintf("(mk_desc %s %s)", coqList(ns), coqNats(d.Caps))
}

// randDesc grows a pipeline: sources first, then helpers applied to channel ends nobody reads yet, then a reader on every open end.
func (c *Ctx) randDesc() c03Desc {
	var d c03Desc
	var open []int
	newChan := func(cap int) int {
		d.Caps = append(d.Caps, cap)
		return len(d.Caps) - 1
	}
	take := func() int {
		i := c.Rng.IntN(len(open))
		ch := open[i]
		open = append(open[:i], open[i+1:]...)
		return ch
	}
	for s := 0; s < 1+c.Rng.IntN(3); s++ {
		n := []int{0, 1, 2, 3, 5, 8, 12}[c.Rng.IntN(7)]
		xs := make([]int, n)
		for i := range xs {
			xs[i] = c.Rng.IntN(50)
		}
		ch := newChan([]int{0, 0, 1, 3, 16}[c.Rng.IntN(5)])
		d.Nodes = append(d.Nodes, c03Node{Kind: "source", Out: []int{ch}, Xs: xs})
		open = append(open, ch)
	}
	for step := 0; step < 2+c.Rng.IntN(7) && len(open) > 0; step++ {
		kinds := []string{"map", "buffered", "dup", "dup", "operate", "operate", "operate3", "skip", "skip", "shift", "first", "head"}
		k := kinds[c.Rng.IntN(len(kinds))]
		switch k {
		case "map":
			i := take()
			o := newChan(0)
			d.Nodes = append(d.Nodes, c03Node{Kind: k, In: []int{i}, Out: []int{o}})
			open = append(open, o)
		case "buffered":
			i := take()
			o := newChan(c.Rng.IntN(5))
			d.Nodes = append(d.Nodes, c03Node{Kind: k, In: []int{i}, Out: []int{o}})
			open = append(open, o)
		case "dup":
			i := take()
			cnt := 2 + c.Rng.IntN(2)
			var outs []int
			for j := 0; j < cnt; j++ {
				outs = append(outs, newChan(d.Caps[i]))
			}
			d.Nodes = append(d.Nodes, c03Node{Kind: k, In: []int{i}, Out: outs})
			open = append(open, outs...)
		case "operate":
			if len(open) < 2 {
				continue
			}
			a, b := take(), take()
			o := newChan(0)
			d.Nodes = append(d.Nodes, c03Node{Kind: k, In: []int{a, b}, Out: []int{o}})
			open = append(open, o)
		case "operate3":
			if len(open) < 3 {
				continue
			}
			a, b, e := take(), take(), take()
			o := newChan(0)
			d.Nodes = append(d.Nodes, c03Node{Kind: k, In: []int{a, b, e}, Out: []int{o}})
			open = append(open, o)
		case "skip", "first", "head":
			i := take()
			o := newChan(d.Caps[i])
			d.Nodes = append(d.Nodes, c03Node{Kind: k, In: []int{i}, Out: []int{o}, Count: c.Rng.IntN(5)})
			open = append(open, o)
		case "shift":
			i := take()
			cnt := c.Rng.IntN(4)
			o := newChan(d.Caps[i] + cnt)
			d.Nodes = append(d.Nodes, c03Node{Kind: k, In: []int{i}, Out: []int{o}, Count: cnt, Fill: 7})
			open = append(open, o)
		}
	}
	for _, ch := range open {
		d.Nodes = append(d.Nodes, c03Node{Kind: "sink", In: []int{ch}})
	}
	return d
}

func (c *Ctx) c03Net(d c03Desc) {
	fin, clean, recv := runDesc(d)
	items := 0
	for _, nd := range d.Nodes {
		items += len(nd.Xs) + nd.Count + 1
		c.Count("node/" + nd.Kind)
	}
	fuel := 40 + 6*items*len(d.Nodes)
	var rs []string
	for _, r := range recv {
		rs = append(rs, coqNats(r))
	}
	switch {
	case !fin:
		c.Count("pipelines/some reader never finished (deadlock)")
	case !clean:
		c.Count("pipelines/readers finished, a goroutine remained (leak)")
	default:
		c.Count("pipelines/clean")
	}
	term := fmt.Sprintf("KNet %s %d%%nat %s %s %s", d.coq(), fuel, coqBool(fin), coqBool(clean), coqList(rs))
	c.AddCase(term, CaseInfo{Subject: "helper pipelines", Desc: fmt.Sprintf("%d nodes, %d channels: readers finished=%v, no goroutine left=%v, received %v", len(d.Nodes), len(d.Caps), fin, clean, recv),
		Input: map[string]any{"pipeline": d, "readers_finished": fin, "no_goroutine_left": clean, "received": recv}}, len(d.Nodes) > 2)
}

// ---- part 2: the library's pipelines under pacing / buffering / GOMAXPROCS variants --------------------------------

type c03Variant struct {
	InCap      int  `json:"input_channel_capacity"`
	ProducerNs int  `json:"producer_pause_ns"`
	ReaderNs   int  `json:"reader_pause_ns"`
	Procs      int  `json:"gomaxprocs"`
	Stagger    bool `json:"readers_start_one_after_the_other"`
}

func pause(ns int) {
	if ns == 0 {
		return
	}
	if ns < 1000 {
		runtime.Gosched()
		return
	}
	time.Sleep(time.Duration(ns))
}

func pacedChan[T any](xs []T, v c03Variant) <-chan T {
	ch := make(chan T, v.InCap)
	go func() {
		defer close(ch)
		for _, x := range xs {
			pause(v.ProducerNs)
			ch <- x
		}
	}()
	return ch
}

// c03Producer / c03Reader appear in the stacks of the goroutines below through these wrappers, so the census sees them.
func c03ReaderAny(ch reflect.Value, v c03Variant, limit int, sink func(reflect.Value), wg *sync.WaitGroup, finished *atomic.Int32) {
	defer wg.Done()
	if c03ReaderLoop(ch, v, limit, sink) {
		finished.Add(1)
	}
}

// c03ReaderLoop reads until the channel is closed (true), or gives up on an output that delivers far more values than
// there were inputs (false: it will never close; the writer is left blocked and the run is reported as not closed).
func c03ReaderLoop(ch reflect.Value, v c03Variant, limit int, sink func(reflect.Value)) bool {
	for k := 0; ; k++ {
		x, ok := ch.Recv()
		if !ok {
			return true
		}
		if k > limit {
			return false
		}
		sink(x)
		pause(v.ReaderNs)
	}
}

// runPaced calls Compute with paced input channels and one independent reader per output; quiescence decides the end.
func runPaced(inst reflect.Value, args []reflect.Value, v c03Variant, nmax int) (outs [][]reflect.Value, closed, clean bool) {
	t0 := time.Now()
	defer func() {
		if d := time.Since(t0); d > 500*time.Millisecond && os.Getenv("C03_DEBUG") != "" {
			fmt.Fprintf(os.Stderr, "c03: slow run %v %s %+v closed=%v clean=%v\n", d, inst.Type(), v, closed, clean)
		}
	}()
	old := runtime.GOMAXPROCS(v.Procs)
	defer runtime.GOMAXPROCS(old)
	before := census()
	res := inst.MethodByName("Compute").Call(args)
	outs = make([][]reflect.Value, len(res))
	var wg sync.WaitGroup
	var finished atomic.Int32
	for i, r := range res {
		i := i
		wg.Add(1)
		if v.Stagger && i > 0 {
			time.Sleep(200 * time.Microsecond)
		}
		go c03ReaderAny(r, v, 4*nmax+1000, func(x reflect.Value) { outs[i] = append(outs[i], x) }, &wg, &finished)
	}
	left := settle(before, func() bool { return int(finished.Load()) == len(res) })
	closed = int(finished.Load()) == len(res)
	return outs, closed, left == 0
}

func (c *Ctx) randVariant() c03Variant {
	return c03Variant{InCap: []int{0, 0, 1, 4, 64}[c.Rng.IntN(5)], ProducerNs: []int{0, 0, 1, 20000}[c.Rng.IntN(4)], ReaderNs: []int{0, 0, 1, 20000}[c.Rng.IntN(4)],
		Procs: []int{1, 2, 4, 16}[c.Rng.IntN(4)], Stagger: c.Rng.IntN(4) == 0}
}

type c03FlowInput struct {
	Type    string         `json:"type"`
	Spec    Spec           `json:"spec"`
	Cfg     string         `json:"coq_cfg"`
	Variant c03Variant     `json:"variant"`
	Inputs  [][]string     `json:"inputs,omitempty"`
	Bars    map[string]any `json:"bars,omitempty"`
	Closed  bool           `json:"every_output_closed"`
	Clean   bool           `json:"no_goroutine_left"`
}

func (c *Ctx) c03Indicator(typeKey string, sp Spec, inputs [][]float64, v c03Variant) {
	t := genTypes[typeKey]
	inst, cfg, err := sp.Build()
	if err != nil {
		panic(err)
	}
	args := make([]reflect.Value, len(inputs))
	for i, in := range inputs {
		args[i] = reflect.ValueOf(pacedChan(in, v))
	}
	nmax := 0
	for _, in := range inputs {
		nmax = max(nmax, len(in))
	}
	raw, closed, clean := runPaced(inst, args, v, nmax)
	outs := make([][]float64, len(raw))
	for i := range raw {
		outs[i] = make([]float64, len(raw[i]))
		for j, x := range raw[i] {
			outs[i][j] = x.Float()
		}
	}
	hung := !closed || !clean
	term := fmt.Sprintf("KFlow (let c_ := %s in CInd %s %s %s %s %s %s)", cfg, coqOuts(t, "c_"), idleTerm(t, "c_"), admTerm(typeKey, t, "c_"),
		coqListListF(inputs), coqListListF(outs), coqBool(hung))
	ins := make([][]string, len(inputs))
	lens := make([]int, len(inputs))
	for i := range inputs {
		ins[i] = jsonF(inputs[i])
		lens[i] = len(inputs[i])
	}
	c.countFlow("indicator", v, closed, clean)
	c.AddCase(term, CaseInfo{Subject: typeKey, Desc: fmt.Sprintf("%s input lengths %v, %+v: every output closed=%v, no goroutine left=%v", cfg, lens, v, closed, clean),
		Input: c03FlowInput{Type: typeKey, Spec: sp, Cfg: cfg, Variant: v, Inputs: ins, Closed: closed, Clean: clean}}, len(inputs) > 0 && len(inputs[0]) > 0)
	// the same run against the network the translator generated for this Compute (when it has one)
	if haveNet(t.Coq + "_Compute") {
		var outLens []int
		if closed {
			for _, o := range outs {
				outLens = append(outLens, len(o))
			}
		}
		c.Count("generated-network runs")
		c.AddCase(fmt.Sprintf("(let c_ := %s in KGen %s (%s_Compute_desc c_ %s %d%%nat %s) %d%%nat %s %s %s)", cfg, admTerm(typeKey, t, "c_"), t.Coq, coqOuts(t, "c_"), v.InCap, coqNats(lens), 1500+40*(nmax+5), coqBool(closed), coqBool(clean), coqNats(outLens)),
			CaseInfo{Subject: typeKey, Desc: fmt.Sprintf("generated network of %s, input lengths %v, input capacity %d: every output closed=%v, no goroutine left=%v, output lengths %v", cfg, lens, v.InCap, closed, clean, outLens),
				Input: c03FlowInput{Type: typeKey, Spec: sp, Cfg: cfg, Variant: v, Inputs: ins, Closed: closed, Clean: clean}}, nmax > 0)
	}
}

func (c *Ctx) c03Strategy(typeKey string, sp Spec, b Bars, v c03Variant) {
	t := genTypes[typeKey]
	inst, cfg, err := sp.Build()
	if err != nil {
		panic(err)
	}
	warm, err := warmTerm(&sp)
	if err != nil {
		panic(err)
	}
	adm, err := admTermRec(&sp, 0)
	if err != nil {
		panic(err)
	}
	raw, closed, clean := runPaced(inst, []reflect.Value{reflect.ValueOf(pacedChan[*asset.Snapshot](snapshotsOf(b), v))}, v, len(b.Close))
	var acts []int64
	if len(raw) > 0 {
		for _, x := range raw[0] {
			acts = append(acts, x.Int())
		}
	}
	hung := !closed || !clean
	term := fmt.Sprintf("KFlow (let c_ := %s in CStrat %s %s %s %s %s %s)", cfg, atF(t.Coq+"_Compute", "c_ (EIn 0)"), warm, adm, coqBars(b), coqListZ(acts), coqBool(hung))
	c.countFlow("strategy", v, closed, clean)
	c.AddCase(term, CaseInfo{Subject: typeKey, Desc: fmt.Sprintf("%s n=%d, %+v: every output closed=%v, no goroutine left=%v", cfg, len(b.Close), v, closed, clean),
		Input: c03FlowInput{Type: typeKey, Spec: sp, Cfg: cfg, Variant: v, Bars: barsJSON(b), Closed: closed, Clean: clean}}, len(b.Close) > 0)
	if haveNet(t.Coq + "_Compute") {
		var outLens []int
		if closed {
			outLens = []int{len(acts)}
		}
		n := len(b.Close)
		c.Count("generated-network runs")
		c.AddCase(fmt.Sprintf("(let c_ := %s in KGen %s (%s_Compute_desc c_ %s %d%%nat %s) %d%%nat %s %s %s)", cfg, adm, t.Coq, atF(t.Coq+"_Compute", "c_ (EIn 0)"), v.InCap, coqNats([]int{n}), 1500+40*(n+5), coqBool(closed), coqBool(clean), coqNats(outLens)),
			CaseInfo{Subject: typeKey, Desc: fmt.Sprintf("generated network of %s, n=%d, input capacity %d: output closed=%v, no goroutine left=%v, lengths %v", cfg, n, v.InCap, closed, clean, outLens),
				Input: c03FlowInput{Type: typeKey, Spec: sp, Cfg: cfg, Variant: v, Bars: barsJSON(b), Closed: closed, Clean: clean}}, n > 0)
	}
}

// ---- the networks generated by the translator (coq/Gen/All.v, *_net) ---------------------------------------------

var netNames map[string]bool

// haveNet: did the translator produce a network for this function? (work/translator_report.json of this run)
func haveNet(coqFn string) bool {
	if netNames == nil {
		netNames = map[string]bool{}
		var rep struct {
			Networks []string `json:"networks"`
		}
		if data, err := os.ReadFile(filepath.Join(os.Getenv("VERIF_ROOT"), "work", "translator_report.json")); err == nil {
			_ = json.Unmarshal(data, &rep)
		}
		for _, n := range rep.Networks {
			netNames[n] = true
		}
	}
	return netNames[coqFn]
}

func (c *Ctx) countFlow(kind string, v c03Variant, closed, clean bool) {
	c.Count(kind + " runs")
	c.Count(fmt.Sprintf("input capacity/%d", v.InCap))
	c.Count(fmt.Sprintf("gomaxprocs/%d", v.Procs))
	c.Count(fmt.Sprintf("producer pause ns/%d", v.ProducerNs))
	c.Count(fmt.Sprintf("reader pause ns/%d", v.ReaderNs))
	if !closed {
		c.Count("an output never closed")
	} else if !clean {
		c.Count("outputs closed, a goroutine remained")
	}
}

// c03Shape: a real indicator against the network coq/Kahn/Patterns.v gives for it (same sizes).
func (c *Ctx) c03Shape(kind string, params []int) {
	var inst reflect.Value
	var term string
	var lens []int
	k := params[len(params)-1]
	v := c03Variant{InCap: k, Procs: 4}
	switch kind {
	case "vwap": // p, closings, volumes, k
		inst = reflect.ValueOf(volume.NewVwapWithPeriod[float64](params[0]))
		lens = []int{params[1], params[2]}
		term = fmt.Sprintf("vwap_desc %d %d %d %d", params[0], params[1], params[2], k)
	case "mfm": // highs, lows, closings, k
		inst = reflect.ValueOf(volume.NewMfm[float64]())
		lens = []int{params[0], params[1], params[2]}
		term = fmt.Sprintf("mfm_desc %d %d %d %d", params[0], params[1], params[2], k)
	case "dema": // p1, p2, n, k
		d := trend.NewDema[float64]()
		d.Ema1.Period, d.Ema2.Period = params[0], params[1]
		inst = reflect.ValueOf(d)
		lens = []int{params[2]}
		term = fmt.Sprintf("dema_desc %d %d %d %d %d", params[0], params[1], params[1], params[2], k)
	case "apo": // fast, slow, n, k
		a := trend.NewApo[float64]()
		a.FastPeriod, a.SlowPeriod = params[0], params[1]
		inst = reflect.ValueOf(a)
		lens = []int{params[2]}
		term = fmt.Sprintf("apo_desc %d %d %d %d", params[0], params[1], params[2], k)
	}
	args := make([]reflect.Value, len(lens))
	nmax := 0
	for i, n := range lens {
		xs := make([]float64, n)
		for j := range xs {
			xs[j] = float64(1 + c.Rng.IntN(50))
		}
		args[i] = reflect.ValueOf(pacedChan(xs, v))
		nmax = max(nmax, n)
	}
	raw, closed, clean := runPaced(inst, args, v, nmax)
	var outLens []int
	if closed {
		for _, o := range raw {
			outLens = append(outLens, len(o))
		}
	}
	c.Count("shape/" + kind)
	if !closed {
		c.Count("shape runs that deadlock (unequal inputs or inadmissible periods)")
	}
	fuel := 200 + 40*(nmax+10)
	c.AddCase(fmt.Sprintf("KShape (%s) %d%%nat %s %s %s", natArgs(term), fuel, coqBool(closed), coqBool(clean), coqNats(outLens)),
		CaseInfo{Subject: "network of " + kind, Desc: fmt.Sprintf("%s %v: outputs closed=%v, no goroutine left=%v, lengths %v", kind, params, closed, clean, outLens),
			Input: map[string]any{"shape": kind, "params": params}}, nmax > 0)
}

// natArgs appends %nat to the numeric arguments of a Patterns.v constructor application.
func natArgs(term string) string {
	parts := strings.Fields(term)
	for i := 1; i < len(parts); i++ {
		parts[i] += "%nat"
	}
	return strings.Join(parts, " ")
}

func (c *Ctx) c03Shapes(n int) {
	for i := 0; i < n; i++ {
		k := []int{0, 0, 1, 4}[c.Rng.IntN(4)]
		ln := []int{0, 1, 2, 5, 12, 30, 60}[c.Rng.IntN(7)]
		other := ln
		if c.Rng.IntN(3) == 0 {
			other = []int{0, 1, 3, 9, 25, 70}[c.Rng.IntN(6)]
		}
		switch c.Rng.IntN(4) {
		case 0:
			c.c03Shape("vwap", []int{1 + c.Rng.IntN(9), ln, other, k})
		case 1:
			ls := []int{ln, ln, ln}
			ls[c.Rng.IntN(3)] = other
			c.c03Shape("mfm", append(ls, k))
		case 2:
			c.c03Shape("dema", []int{1 + c.Rng.IntN(8), 1 + c.Rng.IntN(13), ln, k})
		case 3:
			c.c03Shape("apo", []int{1 + c.Rng.IntN(8), 1 + c.Rng.IntN(13), ln, k})
		}
	}
}

func runC03(c *Ctx) error {
	c.header = "From Coq Require Import Floats ZArith List String.\nImport ListNotations.\nFrom Verif Require Import Base.Num Base.Stream Base.GenPrelude Gen.All Spec.Admissible Gen.AdmStrat Kahn.Kahn Kahn.Helpers Kahn.NetPrelude Kahn.Patterns Run.FlowRun Run.ValRun Run.C03Run.\nOpen Scope float_scope.\n"
	c.perFile = 150
	c.Meta.Rule = "part 1: random pipelines (1-3 sources of 0..12 values with input capacity 0/1/3/16, then 2..8 helpers among Map, Buffered, Duplicate(2-3), Operate, Operate3, Skip, Shift, First, Head on open channel ends, a reader on every open end) " +
		"built from the real helpers and run to quiescence (goroutine dump), against one run of the denoted Kahn network; " +
		"part 2: every indicator and strategy type x default and sampled configurations x input lengths 0 / below warm-up / unequal / long x variants of input channel capacity (0,1,4,64), producer and reader pacing, staggered readers, GOMAXPROCS 1/2/4/16: " +
		"values against the regenerated model, every output closed and no goroutine left when the configuration is admissible."
	if c.Replay != "" {
		var raw map[string]any
		if err := readReplayInput(c.Replay, &raw); err != nil {
			return err
		}
		if sh, ok := raw["shape"]; ok {
			var ps []int
			for _, x := range raw["params"].([]any) {
				ps = append(ps, int(x.(float64)))
			}
			c.c03Shape(sh.(string), ps)
			return nil
		}
		if _, ok := raw["pipeline"]; ok {
			var in struct {
				Pipeline c03Desc `json:"pipeline"`
			}
			if err := readReplayInput(c.Replay, &in); err != nil {
				return err
			}
			c.c03Net(in.Pipeline)
			return nil
		}
		var in c03FlowInput
		if err := readReplayInput(c.Replay, &in); err != nil {
			return err
		}
		if in.Bars != nil {
			c.c03Strategy(in.Type, in.Spec, barsFromJSON(in.Bars), in.Variant)
		} else {
			inputs := make([][]float64, len(in.Inputs))
			for i := range in.Inputs {
				inputs[i] = parseF(in.Inputs[i])
			}
			c.c03Indicator(in.Type, in.Spec, inputs, in.Variant)
		}
		return nil
	}
	if os.Getenv("C03_SWEEP") != "" {
		c.c03Sweep()
		return nil
	}
	t0 := time.Now()
	for i := 0; i < c.N(400, 4000); i++ {
		c.c03Net(c.randDesc())
	}
	c.c03Shapes(c.N(120, 1200))
	fmt.Fprintf(os.Stderr, "c03: part 1 took %v\n", time.Since(t0))
	defer func() { fmt.Fprintf(os.Stderr, "c03: all took %v\n", time.Since(t0)) }()
	reps := c.N(1, 5)
	for _, typeKey := range typeKeys("indicator") {
		t := genTypes[typeKey]
		for r := 0; r < 2*reps; r++ {
			sp := c.randSpec(typeKey, 7, 0, r%2 == 1)
			inst, _, err := sp.Build()
			if err != nil {
				return err
			}
			idle := goIdle(inst)
			if idle < 0 {
				idle = 10
			}
			for _, n := range []int{0, c.Rng.IntN(idle + 1), 2*idle + 10 + c.Rng.IntN(30)} {
				bars, _ := c.randBars(n)
				g1, _ := c.randSeries(n)
				g2, _ := c.randSeries(n)
				inputs := inputsFor(t.InNames, bars, [][]float64{g1, g2})
				if len(inputs) > 1 && n > 0 && c.Rng.IntN(3) == 0 { // unequal input lengths
					k := c.Rng.IntN(len(inputs))
					inputs[k] = inputs[k][:c.Rng.IntN(len(inputs[k]))]
				}
				c.c03Indicator(typeKey, sp, inputs, c.randVariant())
			}
		}
	}
	// period spreads: buffers sized from one period and lags caused by another only matter when the periods are far apart
	for _, typeKey := range typeKeys("indicator") {
		t := genTypes[typeKey]
		base := c.randSpec(typeKey, 7, 0, false)
		v0, _, err := base.Build()
		if err != nil {
			return err
		}
		paths := periodPaths(v0, "", 0)
		if len(paths) < 2 {
			continue
		}
		sortStrings(paths)
		for r := 0; r < 4*reps; r++ {
			sp := c.randSpec(typeKey, 7, 0, false)
			sp.Sets = nil
			for _, pth := range paths {
				x := []int64{1, 2, 3, 5, 8, 13, 21}[c.Rng.IntN(7)]
				sp.Sets = append(sp.Sets, SpecSet{Path: pth, Int: &x})
			}
			if c.Rng.IntN(2) == 0 {
				tieSets(&sp, paths)
			}
			inst, _, err := sp.Build()
			if err != nil {
				continue
			}
			idle := goIdle(inst)
			if idle < 0 {
				idle = 40
			}
			n := 2*idle + 30 + c.Rng.IntN(20)
			bars, _ := c.randBars(n)
			g1, _ := c.randSeries(n)
			g2, _ := c.randSeries(n)
			v := c.randVariant()
			v.InCap = []int{0, 0, 1}[c.Rng.IntN(3)]
			c.Count("period-spread runs")
			c.c03Indicator(typeKey, sp, inputsFor(t.InNames, bars, [][]float64{g1, g2}), v)
		}
	}
	for _, typeKey := range typeKeys("strategy") {
		for r := 0; r < 2*reps; r++ {
			sp := c.randSpec(typeKey, 7, 0, r%2 == 1)
			for _, n := range []int{0, c.Rng.IntN(12), 40 + c.Rng.IntN(60)} {
				b, _ := c.randBars(n)
				c.c03Strategy(typeKey, sp, b, c.randVariant())
			}
		}
	}
	return nil
}
