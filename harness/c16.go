// C16: every stream helper against its slice model, for every input length 0..12 (exhaustively), parameters 0..6 and
// unequal input lengths; inputs are fed by producers that record whether they were consumed to the end.
package main

import (
	"fmt"
	"sync"
	"sync/atomic"
	"time"

	"github.com/cinar/indicator/v2/helper"
)

func init() { registry["C16"] = runC16 }

type c16Input struct {
	Helper   string     `json:"helper"`
	Ps       []int64    `json:"int_params"`
	Fs       []string   `json:"float_params"`
	Inputs   [][]string `json:"inputs"`
	Outs     [][]string `json:"observed_outputs"`
	Consumed []bool     `json:"inputs_consumed_to_the_end"`
}

// producer feeds a slice into an unbuffered channel and records when every element was taken.
func producer(xs []float64, done *atomic.Bool) <-chan float64 {
	ch := make(chan float64)
	go func() {
		for _, x := range xs {
			ch <- x
		}
		done.Store(true)
		close(ch)
	}()
	return ch
}

func tMap(x float64) float64        { return x*2 + 1 }
func tPred(x float64) bool          { return x > 0 }
func tOp2(a, b float64) float64     { return a*2 - b }
func tOp3(a, b, c float64) float64  { return a + b*c }
func tPrev(prev, x float64) float64 { return prev + x }

func (c *Ctx) c16Case(h string, ps []int64, fs []float64, inputs [][]float64) {
	dones := make([]*atomic.Bool, len(inputs))
	in := make([]<-chan float64, len(inputs))
	for i := range inputs {
		dones[i] = &atomic.Bool{}
		in[i] = producer(inputs[i], dones[i])
	}
	p := func(i int) int { return int(ps[i]) }
	var outs []<-chan float64
	one := func(ch <-chan float64) { outs = []<-chan float64{ch} }
	func() {
		defer func() {
			if r := recover(); r != nil {
				outs = nil
			}
		}()
		switch h {
		case "HMap":
			one(helper.Map(in[0], tMap))
		case "HApply":
			one(helper.Apply(in[0], tMap))
		case "HFilter":
			one(helper.Filter(in[0], tPred))
		case "HSkip":
			one(helper.Skip(in[0], p(0)))
		case "HHead":
			one(helper.Head(in[0], p(0)))
		case "HFirst":
			one(helper.First(in[0], p(0)))
		case "HLast":
			one(helper.Last(in[0], p(0)))
		case "HShift":
			one(helper.Shift(in[0], p(0), fs[0]))
		case "HBuffered":
			one(helper.Buffered(in[0], p(0)))
		case "HPipe":
			t := make(chan float64)
			go helper.Pipe(in[0], t)
			one(t)
		case "HWaitable":
			var wg sync.WaitGroup
			one(helper.Waitable(&wg, in[0]))
		case "HDuplicate":
			outs = helper.Duplicate(in[0], p(0))
		case "HCount":
			one(helper.Count(fs[0], in[0]))
		case "HSince":
			one(helper.Since[float64, float64](in[0]))
		case "HChange":
			one(helper.Change(in[0], p(0)))
		case "HChangeRatio":
			one(helper.ChangeRatio(in[0], p(0)))
		case "HChangePercent":
			one(helper.ChangePercent(in[0], p(0)))
		case "HOperate":
			one(helper.Operate(in[0], in[1], tOp2))
		case "HOperate3":
			one(helper.Operate3(in[0], in[1], in[2], tOp3))
		case "HEcho":
			one(helper.Echo(in[0], p(0), p(1)))
		case "HSeq":
			one(helper.Seq(fs[0], fs[1], fs[2]))
		case "HMapWithPrevious":
			one(helper.MapWithPrevious(in[0], tPrev, fs[0]))
		case "HAbs":
			one(helper.Abs(in[0]))
		case "HAdd":
			one(helper.Add(in[0], in[1]))
		case "HSubtract":
			one(helper.Subtract(in[0], in[1]))
		case "HMultiply":
			one(helper.Multiply(in[0], in[1]))
		case "HDivide":
			one(helper.Divide(in[0], in[1]))
		case "HMultiplyBy":
			one(helper.MultiplyBy(in[0], fs[0]))
		case "HDivideBy":
			one(helper.DivideBy(in[0], fs[0]))
		case "HIncrementBy":
			one(helper.IncrementBy(in[0], fs[0]))
		case "HDecrementBy":
			one(helper.DecrementBy(in[0], fs[0]))
		case "HPow":
			one(helper.Pow(in[0], fs[0]))
		case "HSqrt":
			one(helper.Sqrt(in[0]))
		case "HSign":
			one(helper.Sign(in[0]))
		case "HKeepPositives":
			one(helper.KeepPositives(in[0]))
		case "HKeepNegatives":
			one(helper.KeepNegatives(in[0]))
		case "HRoundDigits":
			one(helper.RoundDigits(in[0], p(0)))
		case "HSyncPeriod":
			one(helper.SyncPeriod(p(0), p(1), in[0]))
		default:
			panic("unknown helper " + h)
		}
	}()
	ci := c16Input{Helper: h, Ps: ps, Fs: jsonF(fs), Inputs: jsonFF(inputs)}
	if outs == nil {
		c.Direct(Violation{Subject: "helper." + h[1:], Kind: "spec", Detail: "panic while building the helper for in-domain parameters", Input: ci})
		return
	}
	// every output is drained by its own reader
	res := make([][]float64, len(outs))
	oks := make([]bool, len(outs))
	var wg sync.WaitGroup
	for i, o := range outs {
		wg.Add(1)
		go func(i int, o <-chan float64) {
			defer wg.Done()
			res[i], oks[i] = drainT(o, 3*time.Second)
		}(i, o)
	}
	wg.Wait()
	for i := range oks {
		if !oks[i] {
			c.Direct(Violation{Subject: "helper." + h[1:], Kind: "hang", Detail: fmt.Sprintf("output %d never closed", i), Input: ci})
			return
		}
	}
	// give the helper a moment to finish draining its longer inputs
	consumed := make([]bool, len(inputs))
	deadline := time.Now().Add(300 * time.Millisecond)
	for {
		all := true
		for i, d := range dones {
			consumed[i] = d.Load()
			all = all && consumed[i]
		}
		if all || time.Now().After(deadline) {
			break
		}
		time.Sleep(200 * time.Microsecond)
	}
	ci.Outs, ci.Consumed = jsonFF(res), consumed
	cb := make([]string, len(consumed))
	for i, b := range consumed {
		cb[i] = coqBool(b)
	}
	term := fmt.Sprintf("CH %s %s %s %s %s %s", h, coqListZ(ps), coqListF(fs), coqListListF(inputs), coqListListF(res), coqList(cb))
	c.Count("helper/" + h[1:])
	n := 0
	if len(inputs) > 0 {
		n = len(inputs[0])
	}
	c.Count(fmt.Sprintf("len0=%d", n))
	c.AddCase(term, CaseInfo{Subject: "helper." + h[1:], Desc: fmt.Sprintf("%s ps=%v fs=%v lens=%v", h, ps, fs, lensOf(inputs)), Input: ci}, n > 0)
}

func lensOf(xs [][]float64) []int {
	out := make([]int, len(xs))
	for i, x := range xs {
		out[i] = len(x)
	}
	return out
}

func (c *Ctx) smallSeries(n int) []float64 {
	xs := make([]float64, n)
	style := c.Rng.IntN(4)
	x := float64(c.Rng.IntN(9) - 2)
	for i := range xs {
		switch style {
		case 0:
			x = float64(c.Rng.IntN(9) - 4)
		case 1:
			if c.Rng.IntN(3) == 0 {
				x += float64(c.Rng.IntN(3) - 1)
			}
		case 2:
			x = grid(c.Rng.NormFloat64() * 5)
		default:
			if c.Rng.IntN(4) == 0 {
				x = 0
			} else {
				x = grid(c.Rng.Float64()*8 + 0.5)
			}
		}
		xs[i] = x
	}
	return xs
}

func runC16(c *Ctx) error {
	c.header = "From Coq Require Import Floats ZArith List.\nImport ListNotations.\nFrom Verif Require Import Run.C16Run.\nOpen Scope float_scope.\n"
	c.perFile = 300
	c.Meta.Rule = "38 helpers (Map, Apply, Filter, Skip, Head, First, Last, Shift, Buffered, Pipe, Waitable, Duplicate, Count, Since, Change, ChangeRatio, ChangePercent, " +
		"Operate, Operate3, Echo, Seq, MapWithPrevious, SyncPeriod and the arithmetic wrappers) x every input length 0..12 x parameters 0..6 (1..6 where the domain starts at 1) " +
		"x unequal input lengths for the zips; binary64 elements with zeros, negatives, ties; unbuffered producers that record whether they were consumed to the end; " +
		"every output drained by its own reader."
	if c.Replay != "" {
		var in c16Input
		if err := readReplayInput(c.Replay, &in); err != nil {
			return err
		}
		inputs := make([][]float64, len(in.Inputs))
		for i := range in.Inputs {
			inputs[i] = parseF(in.Inputs[i])
		}
		c.c16Case(in.Helper, in.Ps, parseF(in.Fs), inputs)
		return nil
	}
	maxN := 12
	unary := []string{"HMap", "HApply", "HFilter", "HPipe", "HWaitable", "HSince", "HAbs", "HSqrt", "HSign", "HKeepPositives", "HKeepNegatives"}
	withK0 := []string{"HSkip", "HHead", "HFirst", "HBuffered", "HChange", "HChangeRatio", "HChangePercent"} // parameter domain >= 0
	withK1 := []string{"HLast", "HDuplicate"}                                                                // parameter domain >= 1
	withF := []string{"HMultiplyBy", "HDivideBy", "HIncrementBy", "HDecrementBy", "HCount", "HMapWithPrevious"}
	binary := []string{"HOperate", "HAdd", "HSubtract", "HMultiply", "HDivide"}
	reps := c.N(1, 4)
	for r := 0; r < reps; r++ {
		for n := 0; n <= maxN; n++ {
			for _, h := range unary {
				c.c16Case(h, nil, nil, [][]float64{c.smallSeries(n)})
			}
			for k := 0; k <= 6; k++ {
				for _, h := range withK0 {
					c.c16Case(h, []int64{int64(k)}, nil, [][]float64{c.smallSeries(n)})
				}
				c.c16Case("HShift", []int64{int64(k)}, []float64{7.5}, [][]float64{c.smallSeries(n)})
				if k >= 1 {
					for _, h := range withK1 {
						c.c16Case(h, []int64{int64(k)}, nil, [][]float64{c.smallSeries(n)})
					}
					c.c16Case("HEcho", []int64{int64(k), int64(c.Rng.IntN(3))}, nil, [][]float64{c.smallSeries(n)})
				}
				c.c16Case("HSyncPeriod", []int64{int64(k), int64(c.Rng.IntN(7))}, nil, [][]float64{c.smallSeries(n)})
			}
			for _, h := range withF {
				c.c16Case(h, nil, []float64{[]float64{2, 0.5, -3, 1.5}[c.Rng.IntN(4)]}, [][]float64{c.smallSeries(n)})
			}
			c.c16Case("HPow", nil, []float64{[]float64{2, -1, 1}[c.Rng.IntN(3)]}, [][]float64{c.smallSeries(n)})
			c.c16Case("HRoundDigits", []int64{int64(c.Rng.IntN(4))}, nil, [][]float64{c.smallSeries(n)})
			// zips: every pair / triple of lengths around n
			for _, m := range []int{0, n / 2, n, n + 1, n + 3} {
				for _, h := range binary {
					c.c16Case(h, nil, nil, [][]float64{c.smallSeries(n), c.smallSeries(m)})
				}
				for _, l := range []int{0, n, m + 2} {
					c.c16Case("HOperate3", nil, nil, [][]float64{c.smallSeries(n), c.smallSeries(m), c.smallSeries(l)})
				}
			}
		}
		for _, sp := range [][]float64{{0, 5, 1}, {1, 1, 1}, {3, 2, 1}, {0, 2, 0.5}, {-2, 2, 1.5}, {0, 10, 3}} {
			c.c16Case("HSeq", nil, sp, nil)
		}
	}
	return nil
}
