// C15: bounded indicators stay in range and bands stay ordered, on valid OHLCV series (low <= open, close <= high, positive
// prices, non-negative volume) with ties, flat and monotone runs. The ranges are evaluated directly on the implementation's
// outputs (positions that are NaN/Inf - a zero defining denominator - are exempt); tolerance 1e-9 relative to the scale.
package main

import (
	"fmt"
	"math"
	"reflect"
	"sort"
	"strings"
	"time"
)

func init() { registry["C15"] = runC15 }

type rangeSpec struct {
	kind string // "range" (every output in [lo,hi]), "bands" (out0 >= out1 >= out2), "nonneg", "minmax"
	lo   float64
	hi   float64
}

// Only quotients have a defining denominator: NaN/Inf is exempt for them and a violation for everything else
// (a standard deviation, an average true range, a band or a moving extreme of finite prices is a finite number).
func (r rangeSpec) nanExempt(typeKey string) bool {
	return r.kind == "range" || typeKey == "volatility.BollingerBandWidth" || typeKey == "volatility.UlcerIndex"
}

var c15Specs = map[string]rangeSpec{
	"momentum.Rsi": {"range", 0, 100}, "volume.Mfi": {"range", 0, 100}, "momentum.StochasticOscillator": {"range", 0, 100}, "trend.Aroon": {"range", 0, 100},
	"momentum.WilliamsR": {"range", -100, 0}, "momentum.StochasticRsi": {"range", 0, 1},
	"volume.Mfm": {"range", -1, 1}, "volume.Cmf": {"range", -1, 1}, "trend.Bop": {"range", -1, 1},
	"volatility.BollingerBands": {kind: "bands"}, "volatility.KeltnerChannel": {kind: "bands"}, "volatility.DonchianChannel": {kind: "bands"},
	"volatility.AccelerationBands": {kind: "bands"}, "trend.Envelope": {kind: "bands"},
	"volatility.MovingStd": {kind: "nonneg"}, "volatility.Atr": {kind: "nonneg"}, "volatility.UlcerIndex": {kind: "nonneg"}, "volatility.BollingerBandWidth": {kind: "nonneg"},
	"trend.MovingMax": {kind: "minmax", lo: 1}, "trend.MovingMin": {kind: "minmax", lo: -1},
}

func finite(x float64) bool { return !math.IsNaN(x) && !math.IsInf(x, 0) }

func (c *Ctx) c15Case(typeKey string, sp Spec, inputs [][]float64, reg string) {
	rs := c15Specs[typeKey]
	inst, cfg, err := sp.Build()
	if err != nil {
		panic(err)
	}
	outs, hung := runIndicatorOnce(inst, inputs, time.Second) // a hang is only skipped here, so no confirmation run
	if hung {
		c.Count("hung (C03's subject, skipped)/" + typeKey)
		return
	}
	c.Count("type/" + typeKey)
	c.Count("regime/" + reg)
	c.Meta.Evaluations++
	if len(outs) > 0 && len(outs[0]) > 0 {
		c.Meta.DistinctNontrivial++
	}
	scale := 1.0
	for _, in := range inputs {
		for _, x := range in {
			if math.Abs(x) > scale && rs.kind != "range" {
				scale = math.Abs(x)
			}
		}
	}
	eps := 1e-9 * scale
	if rs.kind == "range" {
		eps = 1e-9 * math.Max(math.Abs(rs.lo), math.Abs(rs.hi))
	}
	bad := ""
	kind := "spec"
	exempt := map[int]bool{}
	if typeKey == "volume.Mfi" {
		exempt = mfiExempt(inst, inputs)
	}
	if !rs.nanExempt(typeKey) && !specUses(&sp, "trend.NewKama") { // Kama divides by the path length, zero on a flat run
		for j, o := range outs {
			for i, v := range o {
				if !finite(v) {
					bad = fmt.Sprintf("output %d position %d: %v on finite prices (no defining denominator is zero)", j, i, v)
					kind = "spec_nan"
				}
			}
		}
	}
	switch rs.kind {
	case "range":
		for j, o := range outs {
			for i, v := range o {
				if finite(v) && (v < rs.lo-eps || v > rs.hi+eps) && !exempt[i] {
					bad = fmt.Sprintf("output %d position %d: %v outside [%v, %v]", j, i, v, rs.lo, rs.hi)
					if v > rs.hi+eps {
						kind = "spec_above"
					} else if kind == "spec" {
						kind = "spec_below"
					}
				}
			}
		}
	case "bands": // upper, middle, lower
		if len(outs) >= 3 {
			for i := range outs[0] {
				if i < len(outs[1]) && i < len(outs[2]) {
					u, m, l := outs[0][i], outs[1][i], outs[2][i]
					if finite(u) && finite(m) && finite(l) && (u < m-eps || m < l-eps) {
						bad = fmt.Sprintf("position %d: upper %v, middle %v, lower %v are not ordered", i, u, m, l)
					}
				}
			}
		}
	case "nonneg":
		for j, o := range outs {
			for i, v := range o {
				if finite(v) && v < -eps {
					bad = fmt.Sprintf("output %d position %d: %v is negative", j, i, v)
				}
			}
		}
	case "minmax":
		idle := len(inputs[0]) - len(outs[0])
		if goIdle(inst) < 0 { // Period < 1 (what the parameterless NewMovingMax/NewMovingMin return) is not a window
			break
		}
		for i, v := range outs[0] {
			x := inputs[0][i+idle]
			if rs.lo > 0 && v < x-eps {
				bad = fmt.Sprintf("position %d: moving max %v below the value %v", i, v, x)
			}
			if rs.lo < 0 && v > x+eps {
				bad = fmt.Sprintf("position %d: moving min %v above the value %v", i, v, x)
			}
		}
	}
	if bad != "" {
		ins := make([][]string, len(inputs))
		for i := range inputs {
			ins[i] = jsonF(inputs[i])
		}
		c.Direct(Violation{Subject: typeKey, Kind: kind, Detail: cfg + ": " + bad,
			Input: indInput{Type: typeKey, Spec: sp, Cfg: cfg, N: len(inputs[0]), Regime: reg, Inputs: ins}})
	}
}

// mfiExempt lists the output positions of the MFI whose defining denominator, the negative money flow summed over the window,
// is zero. The implementation keeps that sum incrementally (add the new value, subtract the one that leaves), so where the exact
// sum is zero it holds a rounding residual of either sign and the quotient is meaningless rather than NaN: those are the
// positions the property exempts, and they are recognised here by summing the window directly.
func mfiExempt(inst reflect.Value, inputs [][]float64) map[int]bool {
	period := int(inst.Elem().FieldByName("Sum").Elem().FieldByName("Period").Int())
	h, l, cl, v := inputs[0], inputs[1], inputs[2], inputs[3]
	n := len(h)
	rmf := make([]float64, n)
	for i := range rmf {
		rmf[i] = (h[i] + l[i] + cl[i]) / 3 * v[i]
	}
	out := map[int]bool{}
	for j := 0; j+period <= n-1; j++ {
		zero := true
		for k := j; k < j+period; k++ {
			if rmf[k+1] < rmf[k] && rmf[k+1] != 0 {
				zero = false
			}
		}
		if zero {
			out[j] = true
		}
	}
	return out
}

// c15Bars is randBars off the dyadic grid half of the time (an increasing affine map of all prices keeps the series valid but
// makes sums and squares inexact, so cancellation shows), and with a flat tail a third of the time ("a flat run after movement").
func (c *Ctx) c15Bars(n int) (Bars, string) {
	b, reg := c.randBars(n)
	if c.Rng.IntN(3) == 0 {
		from := n/3 + c.Rng.IntN(n/3+1)
		for i := from; i < n; i++ {
			x := b.Close[from-1]
			b.Open[i], b.High[i], b.Low[i], b.Close[i] = x, x, x, x
		}
		reg += "+flat-tail"
	}
	if c.Rng.IntN(2) == 0 {
		f := func(x float64) float64 { return x*1.0123456789 + 0.0371 }
		for i := range b.Close {
			b.Open[i], b.High[i], b.Low[i], b.Close[i] = f(b.Open[i]), f(b.High[i]), f(b.Low[i]), f(b.Close[i])
		}
		reg += "+offgrid"
	}
	return b, reg
}

// c15Spec draws a period configuration in the property's domain: paired moving min/max windows are equal (the constructors set
// them from one period; unequal windows misalign the streams, which is C02's subject), and a pluggable moving average is one
// that keeps positive prices positive (Hma overshoots and can be negative on positive prices, which inverts centre*(1 +- p)).
func (c *Ctx) c15Spec(typeKey string, vary bool) Spec {
	for {
		sp := c.randSpec(typeKey, 8, 0, vary)
		if v, _, err := sp.Build(); err == nil {
			paths := periodPaths(v, "", 0)
			sort.Strings(paths)
			tieSets(&sp, paths)
		}
		if !specUses(&sp, "trend.NewHma") {
			return sp
		}
	}
}

func specUses(sp *Spec, ctorPrefix string) bool {
	if strings.HasPrefix(sp.Ctor, ctorPrefix) {
		return true
	}
	for i := range sp.Args {
		if sp.Args[i].Sub != nil && specUses(sp.Args[i].Sub, ctorPrefix) {
			return true
		}
	}
	return false
}

func runC15(c *Ctx) error {
	c.header = fmt.Sprintf(flowHeader, "Run.ValRun")
	c.Meta.Rule = "the 20 indicators named by C15 x sampled configurations (paired min/max windows mostly equal) x valid OHLCV series of length 3*warm-up+30 in all regimes " +
		"(walk, plateaus, flat, ties, up, down, zero volume, spiky); ranges / band order / non-negativity evaluated on the implementation's outputs; NaN/Inf positions (zero defining denominator) exempt; tolerance 1e-9."
	if c.Replay != "" {
		var in indInput
		if err := readReplayInput(c.Replay, &in); err != nil {
			return err
		}
		inputs := make([][]float64, len(in.Inputs))
		for i := range in.Inputs {
			inputs[i] = parseF(in.Inputs[i])
		}
		c.c15Case(in.Type, in.Spec, inputs, in.Regime)
		return nil
	}
	cfgs := c.N(40, 400)
	for _, typeKey := range typeKeys("indicator") {
		if _, ok := c15Specs[typeKey]; !ok {
			continue
		}
		t := genTypes[typeKey]
		for k := 0; k < cfgs; k++ {
			sp := c.c15Spec(typeKey, k > 0)
			inst, _, err := sp.Build()
			if err != nil {
				return err
			}
			idle := goIdle(inst)
			if idle < 0 {
				idle = 10
			}
			for r := 0; r < 3; r++ {
				n := 3*idle + 30 + c.Rng.IntN(30)
				bars, reg := c.c15Bars(n)
				g1, _ := c.c15Bars(n)
				c.c15Case(typeKey, sp, inputsFor(t.InNames, bars, [][]float64{g1.Close, g1.High}), reg)
			}
		}
	}
	return nil
}
