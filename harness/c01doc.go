// C01: witnesses of the documented-formula theorems that are REFUTED in Coq (Prim/C01Trend.v, C01Other.v, C01More.v:
// X_actual + X_refuted): the same small inputs are run on the implementation and compared with the value the doc comment
// prescribes. A difference is the genuine finding (listed in known_findings.json); when the code is repaired the witness
// passes and nothing is printed.
package main

import (
	"fmt"
	"math"
	"time"

	"github.com/cinar/indicator/v2/helper"
	"github.com/cinar/indicator/v2/trend"
	"github.com/cinar/indicator/v2/volatility"
	"github.com/cinar/indicator/v2/volume"
)

type docWitness struct {
	subject    string
	theorem    string
	what       string
	run        func() (got, documented float64, ok bool)
	documented string
}

func chanOf(xs ...float64) <-chan float64 { return helper.SliceToChan(xs) }

func lastOf(ch <-chan float64) (float64, bool) {
	xs, ok := drainT(ch, 3*time.Second)
	if !ok || len(xs) == 0 {
		return math.NaN(), false
	}
	return xs[len(xs)-1], true
}

func docWitnesses() []docWitness {
	return []docWitness{
		{"trend.Dema", "Prim.C01Trend.Dema_refuted", "DEMA = 2*EMA1(x) - EMA2(EMA1(x)): Ema1(1,2), Ema2(2,3) on [0 2]", func() (float64, float64, bool) {
			d := trend.NewDema[float64]()
			d.Ema1.Period, d.Ema1.Smoothing, d.Ema2.Period, d.Ema2.Smoothing = 1, 2, 2, 3
			g, ok := lastOf(d.Compute(chanOf(0, 2)))
			return g, 3, ok
		}, "3"},
		{"trend.Apo", "Prim.C01Trend.Apo_refuted", "APO = EMA(fast) - EMA(slow): fast 1, slow 2 on [0 2]", func() (float64, float64, bool) {
			a := trend.NewApo[float64]()
			a.FastPeriod, a.SlowPeriod, a.FastSmoothing, a.SlowSmoothing = 1, 2, 2, 2
			g, ok := lastOf(a.Compute(chanOf(0, 2)))
			return g, 1, ok
		}, "1"},
		{"volume.Obv", "Prim.C01Other.Obv_refuted", "OBV unchanged when the closing is unchanged: closings [10 10], volumes [5 7]", func() (float64, float64, bool) {
			g, ok := lastOf(volume.NewObv[float64]().Compute(chanOf(10, 10), chanOf(5, 7)))
			return g, 5, ok
		}, "5 (the previous OBV)"},
		{"volume.Emv", "Prim.C01Other.Emv_refuted", "EMV = distance moved / box ratio of the same bar: period 1, highs [1 3], lows [0 2], volumes [1e8 2e8]", func() (float64, float64, bool) {
			e := volume.NewEmvWithPeriod[float64](1)
			g, ok := lastOf(e.Compute(chanOf(1, 3), chanOf(0, 2), chanOf(1e8, 2e8)))
			return g, 1, ok
		}, "1"},
		{"volatility.UlcerIndex", "Prim.C01Other.UlcerIndex_refuted", "UI = sqrt(mean of squared percentage drawdowns): period 2, closings [2 1 2]", func() (float64, float64, bool) {
			u := volatility.NewUlcerIndex[float64]()
			u.Period = 2
			g, ok := lastOf(u.Compute(chanOf(2, 1, 2)))
			return g, math.Sqrt(1250), ok
		}, "sqrt(1250)"},
		{"trend.Tsi", "Prim.C01More.Tsi_refuted", "PCDS = Ema(second, Ema(first, change)): NewTsiWith(2,3) on [0 1 1 1 0]", func() (float64, float64, bool) {
			g, ok := lastOf(trend.NewTsiWith[float64](2, 3).Compute(chanOf(0, 1, 1, 1, 0)))
			return g, 4, ok
		}, "4"},
		{"volume.Fi", "Prim.C01More.Fi_refuted", "FI = EMA((current - previous) * volume of the current bar): EMA(1), closings [1 2], volumes [1 3]", func() (float64, float64, bool) {
			f := volume.NewFiWithPeriod[float64](1)
			g, ok := lastOf(f.Compute(chanOf(1, 2), chanOf(1, 3)))
			return g, 3, ok
		}, "3"},
		{"trend.Aroon", "Prim.C01More.Aroon_refuted", "Aroon Up = ((Period - periods since the Period-high) / Period) * 100: period 2, highs [3 1]", func() (float64, float64, bool) {
			a := trend.NewAroon[float64]()
			a.Period = 2
			up, down := a.Compute(chanOf(3, 1), chanOf(3, 1))
			go helper.Drain(down)
			g, ok := lastOf(up)
			return g, 50, ok
		}, "50"},
		{"trend.MovingMin", "Props.C01Doc.C01_MovingMin_all (formerly refuted on zeros; fixed)", "moving minimum of the last 3 values of [0 5 7 8], first value", func() (float64, float64, bool) {
			xs, ok := drainT(trend.NewMovingMinWithPeriod[float64](3).Compute(chanOf(0, 5, 7, 8)), 3*time.Second)
			if !ok || len(xs) == 0 {
				return math.NaN(), 0, false
			}
			return xs[0], 0, true
		}, "0"},
	}
}

func (c *Ctx) c01DocWitnesses() {
	for _, w := range docWitnesses() {
		got, doc, ok := w.run()
		c.Count("documented-formula witnesses")
		c.Meta.Evaluations++
		if !ok {
			c.Direct(Violation{Subject: w.subject, Kind: "spec_doc", Detail: w.what + ": no output", Input: map[string]any{"doc_witness": w.subject}})
			continue
		}
		if math.Abs(got-doc) > 1e-9*math.Max(1, math.Abs(doc)) {
			c.Direct(Violation{Subject: w.subject, Kind: "spec_doc", Detail: fmt.Sprintf("%s: the implementation yields %v, the documented formula %s (refuted theorem %s)", w.what, got, w.documented, w.theorem),
				Input: map[string]any{"doc_witness": w.subject}})
		}
	}
}
