// C07: combinators and decorators over scripted stub strategies that replay chosen action words.
package main

import (
	"fmt"
	"time"

	"github.com/cinar/indicator/v2/asset"
	"github.com/cinar/indicator/v2/helper"
	"github.com/cinar/indicator/v2/strategy"
	"github.com/cinar/indicator/v2/strategy/decorator"
)

func init() { registry["C07"] = runC07 }

// stubStrategy replays a fixed action word whatever the snapshots are (it drains them).
type stubStrategy struct{ word []int64 }

func (s *stubStrategy) Name() string { return "stub" }
func (s *stubStrategy) Compute(snapshots <-chan *asset.Snapshot) <-chan strategy.Action {
	go helper.Drain(snapshots)
	return helper.SliceToChan(toActions(s.word))
}
func (s *stubStrategy) Report(c <-chan *asset.Snapshot) *helper.Report { return nil }

type c07Input struct {
	Kind   string    `json:"combinator"`
	Pct    float64   `json:"stop_loss_percentage,omitempty"`
	Words  [][]int64 `json:"words"`
	Closes []string  `json:"closes"`
	Obs    []int64   `json:"observed_actions"`
}

func (c *Ctx) c07Case(kind string, pct float64, words [][]int64, closes []float64) {
	stubs := make([]strategy.Strategy, len(words))
	for i, w := range words {
		stubs[i] = &stubStrategy{word: w}
	}
	var s strategy.Strategy
	coqKind := ""
	switch kind {
	case "and":
		s, coqKind = strategy.NewAndStrategy("and", stubs...), "KAnd"
	case "or":
		s, coqKind = strategy.NewOrStrategy("or", stubs...), "KOr"
	case "majority":
		s, coqKind = strategy.NewMajorityStrategyWith("majority", stubs), "KMajority"
	case "split":
		s, coqKind = strategy.NewSplitStrategy(stubs[0], stubs[1]), "KSplit"
	case "inverse":
		s, coqKind = decorator.NewInverseStrategy(stubs[0]), "KInverse"
	case "noloss":
		s, coqKind = decorator.NewNoLossStrategy(stubs[0]), "KNoLoss"
	case "stoploss":
		s, coqKind = decorator.NewStopLossStrategy(stubs[0], pct), fmt.Sprintf("(KStopLoss %s)", coqF(pct))
	}
	b := Bars{Close: closes, Open: closes, High: closes, Low: closes, Volume: make([]float64, len(closes)), Day: make([]int64, len(closes))}
	acts, ok := drainT(s.Compute(helper.SliceToChan(snapshotsOf(b))), 5*time.Second)
	obs := fromActions(acts)
	in := c07Input{Kind: kind, Pct: pct, Words: words, Closes: jsonF(closes), Obs: obs}
	if !ok {
		c.Direct(Violation{Subject: "combinator/" + kind, Kind: "hang", Detail: "the action stream did not close", Input: in})
		return
	}
	ws := make([]string, len(words))
	for i, w := range words {
		ws[i] = coqListZ(w)
	}
	term := fmt.Sprintf("CComb %s %s %s %s", coqKind, coqList(ws), coqListF(closes), coqListZ(obs))
	c.Count("kind/" + kind)
	c.Count(fmt.Sprintf("k=%d", len(words)))
	c.AddCase(term, CaseInfo{Subject: "combinator/" + kind, Desc: fmt.Sprintf("%s over %d words, %d closes -> %d actions", kind, len(words), len(closes), len(obs)), Input: in}, len(obs) > 0)
}

// closesFor builds a positive closing series; for stop-loss it plants closes exactly at, just above and just below the stop level.
func (c *Ctx) closesFor(n int, pct float64) []float64 {
	out := make([]float64, n)
	x := float64(8 * (4 + c.Rng.IntN(12)))
	for i := range out {
		switch c.Rng.IntN(6) {
		case 0:
			x = x * (1 - pct) // exactly the stop level of a purchase at x when pct is dyadic
		case 1:
			x = x + 8
		case 2:
			x = x - 8
		case 3:
			// flat
		default:
			x = x + float64(c.Rng.IntN(33)-16)
		}
		if x < 1 {
			x = 64
		}
		out[i] = x
	}
	return out
}

func runC07(c *Ctx) error {
	c.header = "From Coq Require Import Floats ZArith List.\nImport ListNotations.\nFrom Verif Require Import Run.C07Run.\nOpen Scope float_scope.\n"
	c.perFile = 200
	c.Meta.Rule = "And/Or/Majority over k = 1..4 stub strategies, Split over 2, Inverse/NoLoss/StopLoss over 1; stubs replay action words: all words up to length 3 " +
		"for k <= 2 (exhaustive; up to 4 in the thorough tier) and random words up to length 30 in five styles, unequal lengths; closes positive on a dyadic grid with " +
		"values planted exactly at the stop level; stop-loss percentages 0.5, 0.25, 0.125, 0.1, 0.03."
	if c.Replay != "" {
		var in c07Input
		if err := readReplayInput(c.Replay, &in); err != nil {
			return err
		}
		c.c07Case(in.Kind, in.Pct, in.Words, parseF(in.Closes))
		return nil
	}
	allWords := func(maxLen int) [][]int64 {
		var out [][]int64
		for n := 0; n <= maxLen; n++ {
			total := 1
			for i := 0; i < n; i++ {
				total *= 3
			}
			for w := 0; w < total; w++ {
				acts := make([]int64, n)
				x := w
				for i := range acts {
					acts[i] = int64(x%3 - 1)
					x /= 3
				}
				out = append(out, acts)
			}
		}
		return out
	}
	pcts := []float64{0.5, 0.25, 0.125, 0.1, 0.03}
	short := allWords(c.N(3, 4))
	for _, w := range short {
		cl := c.closesFor(len(w)+c.Rng.IntN(2), 0.25)
		for _, k := range []string{"and", "or", "majority", "inverse", "noloss"} {
			c.c07Case(k, 0, [][]int64{w}, cl)
		}
		c.c07Case("stoploss", pcts[c.Rng.IntN(3)], [][]int64{w}, c.closesFor(len(w), 0.25))
	}
	pairs := allWords(c.N(2, 3))
	for _, a := range pairs {
		for _, b := range pairs {
			cl := c.closesFor(len(a), 0.25)
			for _, k := range []string{"and", "or", "majority", "split"} {
				c.c07Case(k, 0, [][]int64{a, b}, cl)
			}
		}
	}
	for i := 0; i < c.N(300, 3000); i++ {
		n := 1 + c.Rng.IntN(30)
		kinds := []string{"and", "or", "majority", "split", "inverse", "noloss", "stoploss", "stoploss", "noloss"}
		kind := kinds[c.Rng.IntN(len(kinds))]
		k := 1
		switch kind {
		case "and", "or", "majority":
			k = 1 + c.Rng.IntN(4)
		case "split":
			k = 2
		}
		words := make([][]int64, k)
		for j := range words {
			m := n
			if c.Rng.IntN(4) == 0 {
				m = c.Rng.IntN(n + 3)
			}
			words[j] = c.randWord(m)
		}
		pct := pcts[c.Rng.IntN(len(pcts))]
		cl := c.closesFor(n+c.Rng.IntN(3)-1, pct)
		c.c07Case(kind, pct, words, cl)
	}
	return nil
}
