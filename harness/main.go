// Command harness runs the real cinar/indicator code on generated inputs, operation histories
// and schedules and writes what it observed as Coq case files (evaluated against the model by
// coqc) plus a meta.json describing the run.  It never decides a property by itself, except for
// relations between two runs of the implementation (prefixes, rescaling, reuse), which it reports
// as direct violations.
package main

import (
	"flag"
	"fmt"
	"os"
	"strings"
)

var registry = map[string]func(*Ctx) error{}

func main() {
	if len(os.Args) < 2 {
		fmt.Fprintln(os.Stderr, "usage: harness <property> [-seed n] [-tier quick|thorough] [-out dir] [-replay file]")
		os.Exit(2)
	}
	if os.Args[1] == "CHILD" {
		runChildMain()
		return
	}
	if os.Args[1] == "C19CHILD" {
		runC19Child()
		return
	}
	prop := strings.ToUpper(os.Args[1])
	fs := flag.NewFlagSet("harness", flag.ExitOnError)
	seed := fs.Uint64("seed", 1, "PRNG seed")
	tier := fs.String("tier", "quick", "quick or thorough")
	out := fs.String("out", "", "output directory")
	replay := fs.String("replay", "", "replay file (optional)")
	_ = fs.Parse(os.Args[2:])
	run, ok := registry[prop]
	if !ok {
		fmt.Fprintln(os.Stderr, "unknown property", prop)
		os.Exit(2)
	}
	if *out == "" {
		fmt.Fprintln(os.Stderr, "-out is required")
		os.Exit(2)
	}
	c := newCtx(prop, *seed, *tier, *out, *replay)
	if err := run(c); err != nil {
		fmt.Fprintln(os.Stderr, "harness error:", err)
		os.Exit(2)
	}
	if err := c.Flush(); err != nil {
		fmt.Fprintln(os.Stderr, "harness error:", err)
		os.Exit(2)
	}
	fmt.Printf("harness %s: %d cases, %d distinct non-trivial, %d direct violations\n",
		prop, c.Meta.Evaluations, c.Meta.DistinctNontrivial, len(c.Meta.Direct))
}
