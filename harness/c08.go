// C08: Outcome / NormalizeActions / DenormalizeActions / CountTransactions on arbitrary action words over
// {Sell, Hold, Buy} and positive value series, unequal lengths included.
package main

import (
	"fmt"
	"time"

	"github.com/cinar/indicator/v2/helper"
	"github.com/cinar/indicator/v2/strategy"
)

func init() { registry["C08"] = runC08 }

type c08Input struct {
	Vals []string `json:"values"`
	Acts []int64  `json:"actions"`
	Out  []string `json:"observed_outcome"`
	Norm []int64  `json:"observed_normalized"`
}

func toActions(xs []int64) []strategy.Action {
	out := make([]strategy.Action, len(xs))
	for i, x := range xs {
		out[i] = strategy.Action(x)
	}
	return out
}

func fromActions(xs []strategy.Action) []int64 {
	out := make([]int64, len(xs))
	for i, x := range xs {
		out[i] = int64(x)
	}
	return out
}

// drainT collects a channel with a deadline (ok=false when it did not close in time).
func drainT[T any](ch <-chan T, limit time.Duration) ([]T, bool) {
	done := make(chan []T, 1)
	go func() {
		var out []T
		for v := range ch {
			out = append(out, v)
		}
		done <- out
	}()
	select {
	case out := <-done:
		return out, true
	case <-time.After(limit):
		return nil, false
	}
}

func (c *Ctx) c08Case(vals []float64, acts []int64) {
	lim := 5 * time.Second
	out, ok1 := drainT(strategy.Outcome(helper.SliceToChan(vals), helper.SliceToChan(toActions(acts))), lim)
	normA, ok2 := drainT(strategy.NormalizeActions(helper.SliceToChan(toActions(acts))), lim)
	denormA, ok3 := drainT(strategy.DenormalizeActions(helper.SliceToChan(toActions(acts))), lim)
	ndn, ok4 := drainT(strategy.NormalizeActions(strategy.DenormalizeActions(strategy.NormalizeActions(helper.SliceToChan(toActions(acts))))), lim)
	outNorm, ok5 := drainT(strategy.Outcome(helper.SliceToChan(vals), strategy.NormalizeActions(helper.SliceToChan(toActions(acts)))), lim)
	cnt, ok6 := drainT(strategy.CountTransactions(helper.SliceToChan(toActions(acts))), lim)
	in := c08Input{Vals: jsonF(vals), Acts: acts, Out: jsonF(out), Norm: fromActions(normA)}
	if !(ok1 && ok2 && ok3 && ok4 && ok5 && ok6) {
		c.Direct(Violation{Subject: "strategy.Outcome", Kind: "hang", Detail: "a stream did not close", Input: in})
		return
	}
	cnt64 := make([]int64, len(cnt))
	for i, x := range cnt {
		cnt64[i] = int64(x)
	}
	term := fmt.Sprintf("COut %s %s %s %s %s %s %s %s", coqListF(vals), coqListZ(acts), coqListF(out), coqListZ(fromActions(normA)),
		coqListZ(fromActions(denormA)), coqListZ(fromActions(ndn)), coqListF(outNorm), coqListZ(cnt64))
	c.Count(fmt.Sprintf("len(actions)<=%d", bucket(len(acts))))
	switch {
	case len(vals) == len(acts):
		c.Count("lengths/equal")
	case len(vals) < len(acts):
		c.Count("lengths/values-shorter")
	default:
		c.Count("lengths/actions-shorter")
	}
	c.AddCase(term, CaseInfo{Subject: "strategy.Outcome", Desc: fmt.Sprintf("%d values, %d actions", len(vals), len(acts)), Input: in}, len(acts) >= 2)
}

func (c *Ctx) randWord(n int) []int64 {
	acts := make([]int64, n)
	style := c.Rng.IntN(5)
	for i := range acts {
		switch style {
		case 0: // uniform
			acts[i] = int64(c.Rng.IntN(3) - 1)
		case 1: // mostly Hold
			if c.Rng.IntN(4) == 0 {
				acts[i] = int64(c.Rng.IntN(3) - 1)
			}
		case 2: // runs of repeated actions
			if i > 0 && c.Rng.IntN(3) != 0 {
				acts[i] = acts[i-1]
			} else {
				acts[i] = int64(c.Rng.IntN(3) - 1)
			}
		case 3: // leading Sells / Holds, then mixed
			if i < n/3 {
				acts[i] = -int64(c.Rng.IntN(2))
			} else {
				acts[i] = int64(c.Rng.IntN(3) - 1)
			}
		default: // conflicts: alternate quickly
			acts[i] = int64(1 - 2*(i%2))
			if c.Rng.IntN(5) == 0 {
				acts[i] = 0
			}
		}
	}
	return acts
}

func runC08(c *Ctx) error {
	c.header = "From Coq Require Import Floats ZArith List.\nImport ListNotations.\nFrom Verif Require Import Run.C08Run.\nOpen Scope float_scope.\n"
	c.perFile = 150
	c.Meta.Rule = "action words over {Sell,Hold,Buy} in five styles (uniform, mostly Hold, runs of repeats, leading Sells, rapid alternation), lengths 0..40 (all words up to " +
		"length 4 exhaustively in the thorough tier), positive value series (walk / flat / plateaus / spiky), equal and unequal stream lengths; observables: Outcome, " +
		"NormalizeActions, DenormalizeActions, Normalize(Denormalize(Normalize)), Outcome over normalised actions, CountTransactions."
	if c.Replay != "" {
		var in c08Input
		if err := readReplayInput(c.Replay, &in); err != nil {
			return err
		}
		c.c08Case(parseF(in.Vals), in.Acts)
		return nil
	}
	// exhaustive short words
	maxLen := c.N(3, 5)
	for n := 0; n <= maxLen; n++ {
		total := 1
		for i := 0; i < n; i++ {
			total *= 3
		}
		for w := 0; w < total; w++ {
			acts := make([]int64, n)
			x := w
			for i := range acts {
				acts[i] = int64(x%3 - 1)
				x /= 3
			}
			b, _ := c.randBars(n)
			c.c08Case(b.Close, acts)
		}
	}
	for k := 0; k < c.N(300, 3000); k++ {
		n := c.Rng.IntN(41)
		acts := c.randWord(n)
		m := n
		switch c.Rng.IntN(4) {
		case 0:
			m = c.Rng.IntN(n + 1)
		case 1:
			m = n + c.Rng.IntN(6)
		}
		b, _ := c.randBars(m)
		c.c08Case(b.Close, acts)
	}
	return nil
}
