// C02: warm-up contract. For sampled configurations of every indicator, every input length n in
// [0, 2w+2] (exhaustively) plus a few longer ones; the observable is the number of values on each output.
package main

import (
	"fmt"
	"reflect"
	"strconv"
	"time"
)

func init() { registry["C02"] = runC02 }

// admissibility / implied-idle functions of coq/Spec/Admissible.v (default: <coq type>_periods_ok)
var admSpecial = map[string]bool{"trend.Macd": true, "trend.Hma": true, "volatility.Po": true, "trend.Apo": true, "trend.Kdj": true, "momentum.AwesomeOscillator": true,
	"momentum.ChaikinOscillator": true, "momentum.Ppo": true, "momentum.Pvo": true, "momentum.IchimokuCloud": true,
	"momentum.StochasticOscillator": true, "momentum.StochasticRsi": true, "momentum.WilliamsR": true,
	"volatility.DonchianChannel": true, "volatility.KeltnerChannel": true}

func admTerm(typeKey string, t genType, cfg string) string {
	if admSpecial[typeKey] {
		return fmt.Sprintf("(adm_%s %s)", t.Coq, cfg)
	}
	return fmt.Sprintf("(%s_periods_ok %s)", t.Coq, cfg)
}

func idleTerm(t genType, cfg string) string {
	if t.HasIdle {
		return fmt.Sprintf("(%s_IdlePeriod %s)", t.Coq, cfg)
	}
	return fmt.Sprintf("(idle_%s %s)", t.Coq, cfg)
}

type indInput struct {
	Type   string     `json:"type"`
	Spec   Spec       `json:"spec"`
	Cfg    string     `json:"coq_cfg"`
	Idle   int        `json:"go_idle"`
	N      int        `json:"n"`
	Regime string     `json:"regime"`
	Inputs [][]string `json:"inputs"`
	Lens   []int      `json:"observed_lengths"`
	Hung   bool       `json:"hung"`
}

const flowHeader = "From Coq Require Import Floats ZArith List String.\nImport ListNotations.\nFrom Verif Require Import Base.Num Base.Stream Base.GenPrelude Gen.All Spec.Admissible Gen.AdmStrat Run.FlowRun %s.\nOpen Scope float_scope.\n"

// goIdle calls IdlePeriod when the type has one (-1 otherwise).
func goIdle(inst reflect.Value) int {
	m := inst.MethodByName("IdlePeriod")
	if !m.IsValid() {
		return -1
	}
	return int(m.Call(nil)[0].Int())
}

func (c *Ctx) indCase(typeKey string, sp Spec, n int, withValues bool) bool {
	t := genTypes[typeKey]
	bars, reg := c.randBars(n)
	g1, reg2 := c.randSeries(n)
	g2, _ := c.randSeries(n)
	if !usesBars(t.InNames) {
		reg = reg2
	}
	inputs := inputsFor(t.InNames, bars, [][]float64{g1, g2})
	return c.indCaseWith(typeKey, sp, inputs, reg, withValues)
}

// replayInd re-runs a recorded case on exactly its recorded inputs.
func (c *Ctx) replayInd(in indInput, withValues bool) {
	inputs := make([][]float64, len(in.Inputs))
	for i, col := range in.Inputs {
		inputs[i] = parseF(col)
	}
	c.indCaseWith(in.Type, in.Spec, inputs, in.Regime, withValues)
}

func parseF(col []string) []float64 {
	out := make([]float64, len(col))
	for j, sv := range col {
		v, err := strconv.ParseFloat(sv, 64)
		if err != nil {
			panic(err)
		}
		out[j] = v
	}
	return out
}

func (c *Ctx) indCaseWith(typeKey string, sp Spec, inputs [][]float64, reg string, withValues bool) bool {
	t := genTypes[typeKey]
	inst, cfg, err := sp.Build()
	if err != nil {
		panic(err)
	}
	n := 0
	if len(inputs) > 0 {
		n = len(inputs[0])
	}
	outs, hung := runIndicator(inst, inputs, 400*time.Millisecond)
	lens := make([]int, len(outs))
	for i, o := range outs {
		lens[i] = len(o)
	}
	obs := outs
	if !withValues { // lengths are the projected observable: erase the values
		obs = make([][]float64, len(outs))
		for i, o := range outs {
			obs[i] = make([]float64, len(o))
		}
	}
	term := fmt.Sprintf("(let c_ := %s in CInd %s %s %s %s %s %s)", cfg, coqOuts(t, "c_"), idleTerm(t, "c_"), admTerm(typeKey, t, "c_"),
		coqListListF(inputs), coqListListF(obs), coqBool(hung))
	if goldMode {
		term = fmt.Sprintf("(let c_ := %s in CGold %s %s %s %s %s %s)", cfg, coqOuts(t, "c_"), coqOutsNamed(t, "gold_"+t.Coq+"_Compute", "c_"), admTerm(typeKey, t, "c_"),
			coqListListF(inputs), coqListListF(obs), coqBool(hung))
	}
	ins := make([][]string, len(inputs))
	for i := range inputs {
		ins[i] = jsonF(inputs[i])
	}
	idle := goIdle(inst)
	c.Count("type/" + typeKey)
	c.Count("regime/" + reg)
	switch {
	case n == 0:
		c.Count("n/0")
	case idle >= 0 && n <= idle:
		c.Count("n/<=idle")
	case idle >= 0 && n <= 2*idle+2:
		c.Count("n/<=2idle+2")
	default:
		c.Count("n/long")
	}
	if hung {
		c.Count("hung")
	}
	c.AddCase(term, CaseInfo{Subject: typeKey, Desc: fmt.Sprintf("%s n=%d idle=%d lens=%v hung=%v", cfg, n, idle, lens, hung),
		Input: indInput{Type: typeKey, Spec: sp, Cfg: cfg, Idle: idle, N: n, Regime: reg, Inputs: ins, Lens: lens, Hung: hung}}, n > 0)
	return hung
}

func runC02(c *Ctx) error {
	c.header = fmt.Sprintf(flowHeader, "Run.C02Run")
	c.perFile = 250
	c.Meta.Rule = "every indicator type of the generated registry x sampled configurations (default constructor, every With-constructor, " +
		"random periods 1..8 assigned to exported period fields, ordered/tied so that documented constraints mostly hold; admissibility is " +
		"decided in Coq by Spec/Admissible.v) x every input length n in [0, 2*idle+2] exhaustively plus two longer ones; series from the " +
		"OHLCV / numeric generators; observable = number of values on every output (values erased). Non-trivial: n > 0; distinct = distinct Coq case terms."
	if c.Replay != "" {
		var in indInput
		if err := readReplayInput(c.Replay, &in); err != nil {
			return err
		}
		c.replayInd(in, false)
		return nil
	}
	cfgs := c.N(3, 12)
	for _, typeKey := range typeKeys("indicator") {
		for k := 0; k < cfgs; k++ {
			maxP := 6
			sp := c.randSpec(typeKey, maxP, 0, k > 0)
			inst, _, err := sp.Build()
			if err != nil {
				return err
			}
			idle := goIdle(inst)
			if idle < 0 {
				idle = 8
			}
			if idle > 40 {
				idle = 40
			}
			top := 2*idle + 2
			if !c.Thorough() && top > 26 {
				top = 26
			}
			hangs := 0
			for n := 0; n <= top && hangs < 1; n++ { // a configuration that hangs (inadmissible ones may) is not swept further
				if c.indCase(typeKey, sp, n, false) {
					hangs++
				}
			}
			if hangs < 1 {
				c.indCase(typeKey, sp, top+7+c.Rng.IntN(20), false)
			}
		}
	}
	return nil
}
