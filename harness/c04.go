// C04: no look-ahead. For indicators and strategies: the outputs on a series cut at m must be a prefix of the
// outputs on the whole series, and changing the series after m must not change them (relations between runs
// of the implementation, decided here); every run is also compared with the model inside Coq.
package main

import (
	"fmt"
	"math"
	"reflect"
	"time"
)

func init() { registry["C04"] = runC04 }

type c04Input struct {
	Kind    string         `json:"kind"` // indicator | strategy
	Type    string         `json:"type"`
	Spec    Spec           `json:"spec"`
	Cfg     string         `json:"coq_cfg"`
	Cut     int            `json:"cut"`
	Changed bool           `json:"suffix_changed"`
	Inputs  [][]string     `json:"inputs,omitempty"`
	Bars    map[string]any `json:"bars,omitempty"`
	Full    any            `json:"outputs_on_whole_series"`
	Part    any            `json:"outputs_on_cut_series"`
}

func sameF(a, b float64) bool {
	return math.Float64bits(a) == math.Float64bits(b) || (math.IsNaN(a) && math.IsNaN(b))
}

func isPrefixF(p, l []float64) bool {
	if len(p) > len(l) {
		return false
	}
	for i := range p {
		if !sameF(p[i], l[i]) {
			return false
		}
	}
	return true
}

func cutAll(inputs [][]float64, m int) [][]float64 {
	out := make([][]float64, len(inputs))
	for i, in := range inputs {
		out[i] = append([]float64{}, in[:m]...)
	}
	return out
}

func cutBars(b Bars, m int) Bars {
	return Bars{Open: b.Open[:m], High: b.High[:m], Low: b.Low[:m], Close: b.Close[:m], Volume: b.Volume[:m], Day: b.Day[:m]}
}

func cutPoints(c *Ctx, n, idle int) []int {
	set := map[int]bool{0: true, 1: true, n - 1: true, n: true}
	for _, m := range []int{idle - 1, idle, idle + 1, idle + 2, 2*idle + 1} {
		if m >= 0 && m <= n {
			set[m] = true
		}
	}
	for k := 0; k < c.N(2, 8); k++ {
		set[c.Rng.IntN(n+1)] = true
	}
	var out []int
	for m := 0; m <= n; m++ {
		if set[m] {
			out = append(out, m)
		}
	}
	return out
}

func (c *Ctx) c04Indicator(typeKey string, sp Spec, inputs [][]float64, reg string) {
	t := genTypes[typeKey]
	inst, cfg, err := sp.Build()
	if err != nil {
		panic(err)
	}
	n := len(inputs[0])
	idle := goIdle(inst)
	if idle < 0 {
		idle = 4
	}
	if c.indCaseWith(typeKey, sp, inputs, reg, true) {
		return
	}
	full, _ := runIndicator(inst, inputs, 400*time.Millisecond)
	ins := make([][]string, len(inputs))
	for i := range inputs {
		ins[i] = jsonF(inputs[i])
	}
	for _, m := range cutPoints(c, n, idle) {
		part, hung := runIndicator(inst, cutAll(inputs, m), 400*time.Millisecond)
		c.Count("indicator/cut")
		if hung {
			continue
		}
		for j := range part {
			if !isPrefixF(part[j], full[j]) {
				c.Direct(Violation{Subject: typeKey, Kind: "spec", Detail: fmt.Sprintf("%s: output %d on the series cut at %d of %d is not a prefix of the output on the whole series", cfg, j, m, n),
					Input: c04Input{Kind: "indicator", Type: typeKey, Spec: sp, Cfg: cfg, Cut: m, Inputs: ins, Full: jsonFF(full), Part: jsonFF(part)}})
				break
			}
		}
		// change the series after m: the values computed from positions < m must not move
		if m < n && c.Rng.IntN(2) == 0 {
			mod := make([][]float64, len(inputs))
			for i, in := range inputs {
				mod[i] = append([]float64{}, in...)
				for k := m; k < n; k++ {
					mod[i][k] = in[k] + float64(1+c.Rng.IntN(5))
				}
			}
			other, hung2 := runIndicator(inst, mod, 400*time.Millisecond)
			c.Count("indicator/suffix-change")
			if hung2 {
				continue
			}
			for j := range part {
				if !isPrefixF(part[j], other[j]) {
					c.Direct(Violation{Subject: typeKey, Kind: "spec", Detail: fmt.Sprintf("%s: changing inputs after position %d changed one of the first %d values of output %d", cfg, m, len(part[j]), j),
						Input: c04Input{Kind: "indicator", Type: typeKey, Spec: sp, Cfg: cfg, Cut: m, Changed: true, Inputs: ins, Full: jsonFF(other), Part: jsonFF(part)}})
					break
				}
			}
		}
	}
	_ = t
}

func jsonFF(xs [][]float64) [][]string {
	out := make([][]string, len(xs))
	for i := range xs {
		out[i] = jsonF(xs[i])
	}
	return out
}

func isPrefixZ(p, l []int64) bool {
	if len(p) > len(l) {
		return false
	}
	for i := range p {
		if p[i] != l[i] {
			return false
		}
	}
	return true
}

func (c *Ctx) c04Strategy(typeKey string, sp Spec, b Bars, reg string) {
	inst, cfg, err := sp.Build()
	if err != nil {
		panic(err)
	}
	n := len(b.Close)
	w0, hung := c.stratCaseWith(typeKey, sp, Bars{}, "empty")
	if hung {
		return
	}
	if _, hung := c.stratCaseWith(typeKey, sp, b, reg); hung {
		return
	}
	full, _ := runStrategy(inst, b, 3*time.Second)
	for _, m := range cutPoints(c, n, w0) {
		part, hung := runStrategy(inst, cutBars(b, m), 3*time.Second)
		c.Count("strategy/cut")
		if hung {
			continue
		}
		// below the warm-up a strategy pads with Holds: the mutual-prefix form
		if !isPrefixZ(part, full) && !(isPrefixZ(full, part) && allZero(part)) {
			c.Direct(Violation{Subject: typeKey, Kind: "spec", Detail: fmt.Sprintf("%s: actions on the first %d of %d snapshots %v are not a prefix of the actions on all of them %v", cfg, m, n, part, full),
				Input: c04Input{Kind: "strategy", Type: typeKey, Spec: sp, Cfg: cfg, Cut: m, Bars: barsJSON(b), Full: full, Part: part}})
		}
		if m < n && c.Rng.IntN(2) == 0 {
			mod := Bars{Open: append([]float64{}, b.Open...), High: append([]float64{}, b.High...), Low: append([]float64{}, b.Low...),
				Close: append([]float64{}, b.Close...), Volume: append([]float64{}, b.Volume...), Day: b.Day}
			for k := m; k < n; k++ {
				d := float64(1 + c.Rng.IntN(9))
				mod.Open[k] += d
				mod.High[k] += d + 1
				mod.Low[k] += d
				mod.Close[k] += d
				mod.Volume[k] += 100 * d
			}
			other, hung2 := runStrategy(inst, mod, 3*time.Second)
			c.Count("strategy/suffix-change")
			if hung2 {
				continue
			}
			k := m
			if len(part) < k {
				k = len(part)
			}
			if len(other) < k || !isPrefixZ(part[:k], other) {
				c.Direct(Violation{Subject: typeKey, Kind: "spec", Detail: fmt.Sprintf("%s: changing snapshots after position %d changed one of the first %d actions: %v vs %v", cfg, m, k, part, other),
					Input: c04Input{Kind: "strategy", Type: typeKey, Spec: sp, Cfg: cfg, Cut: m, Changed: true, Bars: barsJSON(b), Full: other, Part: part}})
			}
		}
	}
}

func allZero(xs []int64) bool {
	for _, x := range xs {
		if x != 0 {
			return false
		}
	}
	return true
}

func runC04(c *Ctx) error {
	c.header = fmt.Sprintf(flowHeader, "Run.ValRun")
	c.perFile = 60
	c.Meta.Rule = "every indicator and every strategy type (base, compound, decorated, nested) x sampled configurations x one series of length about 2*warm-up+10 x cut points " +
		"m in {0,1,w-1,w,w+1,w+2,2w+1,n-1,n} plus random ones: the outputs on the series cut at m must be a prefix of the outputs on the whole series (bit-for-bit), and " +
		"for half of the cut points the series is changed after m and the first outputs must not move. Every whole-series run is also compared with the model in Coq."
	if c.Replay != "" {
		var in c04Input
		if err := readReplayInput(c.Replay, &in); err != nil {
			return err
		}
		if in.Kind == "strategy" {
			c.c04Strategy(in.Type, in.Spec, barsFromJSON(in.Bars), "replay")
		} else {
			inputs := make([][]float64, len(in.Inputs))
			for i := range in.Inputs {
				inputs[i] = parseF(in.Inputs[i])
			}
			c.c04Indicator(in.Type, in.Spec, inputs, "replay")
		}
		return nil
	}
	cfgs := c.N(2, 6)
	for _, typeKey := range typeKeys("indicator") {
		t := genTypes[typeKey]
		for k := 0; k < cfgs; k++ {
			sp := c.randSpec(typeKey, 6, 0, k > 0)
			inst, _, err := sp.Build()
			if err != nil {
				return err
			}
			idle := goIdle(inst)
			if idle < 0 {
				idle = 6
			}
			if idle > 50 {
				idle = 50
			}
			n := 2*idle + 8 + c.Rng.IntN(8)
			bars, reg := c.randBars(n)
			g1, reg2 := c.randSeries(n)
			g2, _ := c.randSeries(n)
			if !usesBars(t.InNames) {
				reg = reg2
			}
			c.c04Indicator(typeKey, sp, inputsFor(t.InNames, bars, [][]float64{g1, g2}), reg)
		}
	}
	for _, typeKey := range typeKeys("strategy") {
		for k := 0; k < cfgs; k++ {
			sp := c.randSpec(typeKey, 6, 0, k > 0)
			inst, _, err := sp.Build()
			if err != nil {
				return err
			}
			w0, hung := runStrategy(inst, Bars{}, 3*time.Second)
			if hung {
				continue
			}
			n := 2*len(w0) + 10 + c.Rng.IntN(10)
			if n > 120 {
				n = 120
			}
			b, reg := c.randBars(n)
			c.c04Strategy(typeKey, sp, b, reg)
		}
	}
	_ = reflect.TypeOf
	return nil
}
