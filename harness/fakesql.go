// A conforming in-memory database/sql driver for the SQL repository: five opaque statements over one table of
// (name, snapshot) rows kept in insertion order.
package main

import (
	"database/sql"
	"database/sql/driver"
	"errors"
	"io"
	"sync"
	"time"
)

type fakeRow struct {
	name string
	date time.Time
	v    [5]float64
}

type fakeDB struct {
	mu   sync.Mutex
	rows []fakeRow
}

var fakeDBs sync.Map // dsn -> *fakeDB

type fakeDriver struct{}

func init() { sql.Register("verif-fake", fakeDriver{}) }

func (fakeDriver) Open(dsn string) (driver.Conn, error) {
	v, _ := fakeDBs.LoadOrStore(dsn, &fakeDB{})
	return &fakeConn{db: v.(*fakeDB)}, nil
}

type fakeConn struct{ db *fakeDB }

func (c *fakeConn) Prepare(q string) (driver.Stmt, error) { return &fakeStmt{db: c.db, q: q}, nil }
func (c *fakeConn) Close() error                          { return nil }
func (c *fakeConn) Begin() (driver.Tx, error)             { return nil, errors.New("no transactions") }

type fakeStmt struct {
	db *fakeDB
	q  string
}

func (s *fakeStmt) Close() error { return nil }
func (s *fakeStmt) NumInput() int {
	switch s.q {
	case "GETSINCE":
		return 2
	case "LASTDATE":
		return 1
	case "APPEND":
		return 7
	}
	return 0
}

func (s *fakeStmt) Exec(args []driver.Value) (driver.Result, error) {
	s.db.mu.Lock()
	defer s.db.mu.Unlock()
	switch s.q {
	case "CREATE":
		return driver.ResultNoRows, nil
	case "DROP":
		s.db.rows = nil
		return driver.ResultNoRows, nil
	case "APPEND":
		r := fakeRow{name: args[0].(string), date: args[1].(time.Time)}
		for i := 0; i < 5; i++ {
			r.v[i] = args[2+i].(float64)
		}
		s.db.rows = append(s.db.rows, r)
		return driver.RowsAffected(1), nil
	}
	return nil, errors.New("unknown statement " + s.q)
}

func (s *fakeStmt) Query(args []driver.Value) (driver.Rows, error) {
	s.db.mu.Lock()
	defer s.db.mu.Unlock()
	switch s.q {
	case "ASSETS":
		seen := map[string]bool{}
		var out [][]driver.Value
		for _, r := range s.db.rows {
			if !seen[r.name] {
				seen[r.name] = true
				out = append(out, []driver.Value{r.name})
			}
		}
		return &fakeRows{cols: []string{"name"}, data: out}, nil
	case "GETSINCE":
		name, since := args[0].(string), args[1].(time.Time)
		var out [][]driver.Value
		for _, r := range s.db.rows {
			if r.name == name && !r.date.Before(since) {
				out = append(out, []driver.Value{r.date, r.v[0], r.v[1], r.v[2], r.v[3], r.v[4]})
			}
		}
		return &fakeRows{cols: []string{"date", "open", "high", "low", "close", "volume"}, data: out}, nil
	case "LASTDATE":
		name := args[0].(string)
		var out [][]driver.Value
		for i := len(s.db.rows) - 1; i >= 0; i-- {
			if s.db.rows[i].name == name {
				out = append(out, []driver.Value{s.db.rows[i].date})
				break
			}
		}
		return &fakeRows{cols: []string{"date"}, data: out}, nil
	}
	return nil, errors.New("unknown query " + s.q)
}

type fakeRows struct {
	cols []string
	data [][]driver.Value
	i    int
}

func (r *fakeRows) Columns() []string { return r.cols }
func (r *fakeRows) Close() error      { return nil }
func (r *fakeRows) Next(dest []driver.Value) error {
	if r.i >= len(r.data) {
		return io.EOF
	}
	copy(dest, r.data[r.i])
	r.i++
	return nil
}

type fakeDialect struct{}

func (fakeDialect) CreateTable() string { return "CREATE" }
func (fakeDialect) DropTable() string   { return "DROP" }
func (fakeDialect) Assets() string      { return "ASSETS" }
func (fakeDialect) GetSince() string    { return "GETSINCE" }
func (fakeDialect) LastDate() string    { return "LASTDATE" }
func (fakeDialect) Append() string      { return "APPEND" }
