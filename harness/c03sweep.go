package main

import (
	"fmt"
	"os"
	"reflect"
)

// c03Sweep (debug aid, C03_SWEEP=1): for every indicator with several inputs, shorten each input in turn and report which hang.
func (c *Ctx) c03Sweep() {
	for _, typeKey := range typeKeys("indicator") {
		t := genTypes[typeKey]
		if len(t.InNames) < 2 {
			continue
		}
		sp := c.randSpec(typeKey, 7, 0, false)
		var bad []string
		for k := range t.InNames {
			for _, cut := range []int{0, 3, 20} {
				inst, _, err := sp.Build()
				if err != nil {
					panic(err)
				}
				n := 60
				bars, _ := c.randBars(n)
				g1, _ := c.randSeries(n)
				g2, _ := c.randSeries(n)
				inputs := inputsFor(t.InNames, bars, [][]float64{g1, g2})
				inputs[k] = inputs[k][:cut]
				v := c03Variant{Procs: 4}
				args := make([]reflect.Value, len(inputs))
				for i, in := range inputs {
					args[i] = reflect.ValueOf(pacedChan(in, v))
				}
				_, closed, clean := runPaced(inst, args, v, n)
				if !closed || !clean {
					bad = append(bad, fmt.Sprintf("%s=%d(closed=%v,clean=%v)", t.InNames[k], cut, closed, clean))
				}
			}
		}
		fmt.Fprintf(os.Stderr, "SWEEP %s %v: %v\n", typeKey, t.InNames, bad)
	}
}
