// C14: strategy reports. The date channel and the value channel of every column are drained to the end
// (each by its own reader) and compared with the model's report; the oracle (in Coq) checks one value per date row,
// and that rows carry the closing price, the annotation of the normalised action and the outcome of their date.
package main

import (
	"fmt"
	"reflect"
	"strings"
	"time"
	"unsafe"

	"github.com/cinar/indicator/v2/helper"
)

func init() { registry["C14"] = runC14 }

type repInput struct {
	Type   string         `json:"type"`
	Spec   Spec           `json:"spec"`
	Cfg    string         `json:"coq_cfg"`
	Warm   string         `json:"coq_warmup"`
	N      int            `json:"n"`
	Bars   map[string]any `json:"bars"`
	Dates  int            `json:"observed_date_rows"`
	Cols   []string       `json:"observed_columns"`
	Hung   bool           `json:"hung"`
	Regime string         `json:"regime"`
}

type obsCol struct {
	label string
	num   []float64
	ann   []string
	isAnn bool
}

// columnChannel returns the (unexported) value channel of a report column.
func columnChannel(col helper.ReportColumn) (reflect.Value, string, bool) {
	v := reflect.ValueOf(col)
	for v.Kind() == reflect.Ptr || v.Kind() == reflect.Interface {
		v = v.Elem()
	}
	f := v.FieldByName("values")
	if !f.IsValid() {
		return reflect.Value{}, "", false
	}
	ch := reflect.NewAt(f.Type(), unsafe.Pointer(f.UnsafeAddr())).Elem()
	return ch, col.Name(), col.Type() != "number"
}

func runReport(inst reflect.Value, b Bars, limit time.Duration) (dates []int64, cols []obsCol, hung bool, err error) {
	m := inst.MethodByName("Report")
	res := m.Call([]reflect.Value{reflect.ValueOf(helper.SliceToChan(snapshotsOf(b)))})
	rep := res[0].Interface().(*helper.Report)
	// the readers keep running after a time-out: they write to locals, never to the named results
	acc := make([]obsCol, len(rep.Columns))
	var accDates []int64
	done := make(chan int, len(rep.Columns)+1)
	go func() {
		for d := range rep.Date {
			accDates = append(accDates, d.Unix()/86400)
		}
		done <- -1
	}()
	for i, col := range rep.Columns {
		ch, label, isAnn := columnChannel(col)
		if !ch.IsValid() {
			return nil, nil, false, fmt.Errorf("column %d has no values channel", i)
		}
		acc[i].label, acc[i].isAnn = label, isAnn
		go func(i int, ch reflect.Value, isAnn bool) {
			for {
				v, ok := ch.Recv()
				if !ok {
					break
				}
				if isAnn {
					acc[i].ann = append(acc[i].ann, v.String())
				} else {
					acc[i].num = append(acc[i].num, v.Float())
				}
			}
			done <- i
		}(i, ch, isAnn)
	}
	timer := time.NewTimer(limit)
	defer timer.Stop()
	for k := 0; k < len(rep.Columns)+1; k++ {
		select {
		case <-done:
		case <-timer.C:
			return nil, nil, true, nil
		}
	}
	return accDates, acc, false, nil
}

func coqStr(s string) string { return fmt.Sprintf("%q%%string", s) }

func (c *Ctx) repCaseWith(typeKey string, sp Spec, b Bars, reg string) bool {
	t := genTypes[typeKey]
	inst, cfg, err := sp.Build()
	if err != nil {
		panic(err)
	}
	warm, err := warmTermWith(&sp, "Z.max")
	if err != nil {
		panic(err)
	}
	adm, err := admTermRec(&sp, 0)
	if err != nil {
		panic(err)
	}
	adm = strings.ReplaceAll(adm, "(adm_strategy_", "(adm_report_strategy_") // the report's own constraints (REPORT_EXTRA in bin/gen-props)
	dates, cols, hung, err := runReport(inst, b, time.Second)
	if err == nil && hung {
		dates, cols, hung, err = runReport(inst, b, 4*time.Second)
	}
	if err != nil {
		panic(err)
	}
	n := len(b.Close)
	var items, desc []string
	for _, col := range cols {
		if col.isAnn {
			ss := make([]string, len(col.ann))
			for i, a := range col.ann {
				ss[i] = coqStr(a)
			}
			items = append(items, "OAnn "+coqList(ss))
			desc = append(desc, fmt.Sprintf("annotations:%d", len(col.ann)))
		} else {
			items = append(items, fmt.Sprintf("ONum %s %s", coqStr(col.label), coqListF(col.num)))
			desc = append(desc, fmt.Sprintf("%s:%d", col.label, len(col.num)))
		}
	}
	term := fmt.Sprintf("(let c_ := %s in CRep %s %s %s %s %s %s %s %s)", cfg, atF(t.Coq+"_Report", "c_ (EIn 0)"), atF(t.Coq+"_Compute", "c_ (EIn 0)"),
		warm, adm, coqBars(b), coqListZ(dates), coqList(items), coqBool(hung))
	c.Count("type/" + typeKey)
	c.Count("regime/" + reg)
	c.Count(fmt.Sprintf("n<=%d", bucket(n)))
	c.AddCase(term, CaseInfo{Subject: typeKey, Desc: fmt.Sprintf("%s n=%d date rows=%d columns=%v hung=%v", cfg, n, len(dates), desc, hung),
		Input: repInput{Type: typeKey, Spec: sp, Cfg: cfg, Warm: warm, N: n, Bars: barsJSON(b), Dates: len(dates), Cols: desc, Hung: hung, Regime: reg}}, n > 0)
	return hung
}

func runC14(c *Ctx) error {
	c.header = fmt.Sprintf(flowHeader, "Run.C14Run")
	c.perFile = 40
	c.caseType = "rcase"
	c.Meta.Rule = "every strategy type (base, compound, decorated, nested) x sampled configurations x snapshot counts around and beyond the warm-up " +
		"(w, w+1, w+2, 2w+3, one longer); the Date channel and every column's value channel are drained by independent readers (reflection on the unexported channel) " +
		"and compared with the model's report columns; oracle: one value per date row in every column; rows are the last snapshots; Close / annotation / Outcome columns carry that row's values."
	if c.Replay != "" {
		var in repInput
		if err := readReplayInput(c.Replay, &in); err != nil {
			return err
		}
		c.repCaseWith(in.Type, in.Spec, barsFromJSON(in.Bars), in.Regime)
		return nil
	}
	cfgs := c.N(2, 6)
	for _, typeKey := range typeKeys("strategy") {
		for k := 0; k < cfgs; k++ {
			sp := c.randSpec(typeKey, 6, 0, k > 0)
			inst, _, err := sp.Build()
			if err != nil {
				return err
			}
			w0, hung := runStrategy(inst, Bars{}, 3*time.Second)
			if hung {
				continue
			}
			w := len(w0)
			for _, n := range []int{w, w + 1, w + 2, 2*w + 3, 2*w + 10 + c.Rng.IntN(30)} {
				if n == 0 {
					n = 1
				}
				b, reg := c.randBars(n)
				if c.repCaseWith(typeKey, sp, b, reg) {
					break
				}
			}
		}
	}
	return nil
}
