// C11: CSV and JSON codecs. (1) typed rows over every supported kind, written and read back (Go vs Go, bit-exact);
// (2) header-name column mapping against the record-level model; (3) write/append sequences on one file against the
// byte-level file model; (4) JSON array round trips.
package main

import (
	"bytes"
	"encoding/csv"
	"fmt"
	"math"
	"os"
	"path/filepath"
	"reflect"
	"strings"
	"time"

	"github.com/cinar/indicator/v2/asset"
	"github.com/cinar/indicator/v2/helper"
)

func init() { registry["C11"] = runC11 }

type allKinds struct {
	S   string
	B   bool
	I   int
	I8  int8
	I16 int16
	I32 int32
	I64 int64
	U   uint
	U16 uint16
	U32 uint32
	U64 uint64
	F32 float32
	F64 float64
	D   time.Time `format:"2006-01-02"`
	T   time.Time
	Q   string `header:"quoted, header"`
}

type str5 struct{ A, B, C, D, E string }

var nastyStrings = []string{"", "plain", "with,comma", "with \"quotes\"", " leading space", "trailing space ", "line\nbreak", "tab\there", "ünïcödé ✓", "\"", ",", "a\rb", "'single'", "0", "-1", "true", "NaN", "1e309"}

func (c *Ctx) randStr() string { return nastyStrings[c.Rng.IntN(len(nastyStrings))] }

func (c *Ctx) randFloat64() float64 {
	switch c.Rng.IntN(8) {
	case 0:
		return 0
	case 1:
		return math.Float64frombits(c.Rng.Uint64()&^(0x7ff<<52) | uint64(c.Rng.IntN(2046)+1)<<52) // random finite normal
	case 2:
		return math.SmallestNonzeroFloat64 * float64(1+c.Rng.IntN(1000))
	case 3:
		return math.MaxFloat64
	case 4:
		return -math.MaxFloat64 / 3
	case 5:
		return float64(c.Rng.IntN(1000)) / 7
	default:
		return c.Rng.NormFloat64() * 1e3
	}
}

func pick[T any](c *Ctx, xs ...T) T { return xs[c.Rng.IntN(len(xs))] }

func (c *Ctx) randAllKinds() *allKinds {
	day := time.Date(2000+c.Rng.IntN(40), time.Month(1+c.Rng.IntN(12)), 1+c.Rng.IntN(28), 0, 0, 0, 0, time.UTC)
	return &allKinds{
		S: c.randStr(), B: c.Rng.IntN(2) == 0,
		I:   pick(c, 0, 1, -1, math.MaxInt64, math.MinInt64, c.Rng.Int()),
		I8:  pick[int8](c, 0, 1, -1, math.MaxInt8, math.MinInt8),
		I16: pick[int16](c, 0, 7, math.MaxInt16, math.MinInt16),
		I32: pick[int32](c, 0, -9, math.MaxInt32, math.MinInt32),
		I64: pick[int64](c, 0, math.MaxInt64, math.MinInt64, int64(c.Rng.Uint64())),
		U:   pick[uint](c, 0, 1, math.MaxUint64), U16: pick[uint16](c, 0, math.MaxUint16), U32: pick[uint32](c, 0, math.MaxUint32),
		U64: pick[uint64](c, 0, math.MaxUint64, c.Rng.Uint64()),
		F32: pick[float32](c, 0, 1.5, math.MaxFloat32, math.SmallestNonzeroFloat32, float32(c.Rng.NormFloat64())),
		F64: c.randFloat64(),
		D:   day, T: day.Add(time.Duration(c.Rng.IntN(86400)) * time.Second),
		Q: c.randStr(),
	}
}

func sameAllKinds(a, b *allKinds) bool {
	return a.S == b.S && a.B == b.B && a.I == b.I && a.I8 == b.I8 && a.I16 == b.I16 && a.I32 == b.I32 && a.I64 == b.I64 && a.U == b.U &&
		a.U16 == b.U16 && a.U32 == b.U32 && a.U64 == b.U64 && math.Float32bits(a.F32) == math.Float32bits(b.F32) &&
		math.Float64bits(a.F64) == math.Float64bits(b.F64) && a.D.Equal(b.D) && a.T.Equal(b.T) && a.Q == b.Q
}

func (c *Ctx) typedRoundTrip(dir string, k int) {
	n := c.Rng.IntN(6)
	rows := make([]*allKinds, n)
	for i := range rows {
		rows[i] = c.randAllKinds()
	}
	// strings containing \r\n are normalised by encoding/csv: known limitation of the codec, kept out of the generated values (see DESIGN.md)
	file := filepath.Join(dir, fmt.Sprintf("typed-%d.csv", k))
	cs, err := helper.NewCsv[allKinds](true)
	if err != nil {
		panic(err)
	}
	in := map[string]any{"rows": fmt.Sprintf("%+v", derefAll(rows))}
	if err := cs.WriteToFile(file, helper.SliceToChan(rows)); err != nil {
		c.Direct(Violation{Subject: "helper.Csv", Kind: "spec", Detail: "WriteToFile failed on supported kinds: " + err.Error(), Input: in})
		return
	}
	ch, err := helper.ReadFromCsvFile[allKinds](file, true)
	if err != nil {
		c.Direct(Violation{Subject: "helper.Csv", Kind: "spec", Detail: "ReadFromCsvFile failed: " + err.Error(), Input: in})
		return
	}
	back, ok := drainT(ch, 5*time.Second)
	c.Count("typed-roundtrip")
	c.Meta.Evaluations++
	bad := !ok || len(back) != len(rows)
	for i := 0; !bad && i < len(rows); i++ {
		bad = !sameAllKinds(rows[i], back[i])
	}
	if bad {
		c.Direct(Violation{Subject: "helper.Csv", Kind: "spec", Detail: fmt.Sprintf("rows written and read back differ: wrote %d rows, read %d", len(rows), len(back)),
			Input: map[string]any{"rows": fmt.Sprintf("%+v", derefAll(rows)), "read_back": fmt.Sprintf("%+v", derefAll(back))}})
	}
}

func derefAll(xs []*allKinds) []allKinds {
	out := make([]allKinds, len(xs))
	for i, x := range xs {
		out[i] = *x
	}
	return out
}

func coqS(s string) string {
	var b strings.Builder
	b.WriteString("\"")
	for _, r := range []byte(s) {
		if r == '"' {
			b.WriteString("\"\"")
		} else {
			b.WriteByte(r)
		}
	}
	b.WriteString("\"%string")
	return b.String()
}

func coqListS(xs []string) string {
	it := make([]string, len(xs))
	for i, x := range xs {
		it[i] = coqS(x)
	}
	return coqList(it)
}

var safeCells = []string{"a", "b1", "x y", "0", "-1.5", "zz", "Q", "", "long-cell-value"}

// header mapping: an arbitrary header record (permuted, extra, missing, duplicated columns) over all-string rows
func (c *Ctx) headerCase() {
	fields := []string{"A", "B", "C", "D", "E"}
	pool := []string{"A", "B", "C", "D", "E", "X", "Y", "A", "C"}
	k := 1 + c.Rng.IntN(8)
	hdr := make([]string, k)
	for i := range hdr {
		hdr[i] = pool[c.Rng.IntN(len(pool))]
	}
	if c.Rng.IntN(3) == 0 { // a plain permutation
		hdr = append([]string{}, fields...)
		c.Rng.Shuffle(len(hdr), func(i, j int) { hdr[i], hdr[j] = hdr[j], hdr[i] })
	}
	nrec := c.Rng.IntN(5)
	file := [][]string{hdr}
	for r := 0; r < nrec; r++ {
		rec := make([]string, len(hdr))
		for i := range rec {
			rec[i] = safeCells[c.Rng.IntN(len(safeCells))]
		}
		if len(rec) == 1 && rec[0] == "" {
			// encoding/csv writes a record made of one empty field as a blank line, which its reader skips: the file this
			// scenario means to describe would not be the file on disk
			rec[0] = "v"
		}
		file = append(file, rec)
	}
	var buf bytes.Buffer
	w := csv.NewWriter(&buf)
	_ = w.WriteAll(file)
	cs, _ := helper.NewCsv[str5](true)
	rows, ok := drainT(cs.ReadFromReader(bytes.NewReader(buf.Bytes())), 5*time.Second)
	if !ok {
		c.Direct(Violation{Subject: "helper.Csv", Kind: "hang", Detail: "reader never closed its stream", Input: map[string]any{"file": file}})
		return
	}
	obs := make([]string, len(rows))
	for i, r := range rows {
		obs[i] = coqListS([]string{r.A, r.B, r.C, r.D, r.E})
	}
	recs := make([]string, len(file))
	for i, r := range file {
		recs[i] = coqListS(r)
	}
	c.Count("header-mapping")
	c.AddCase(fmt.Sprintf("CCsvRead %s %s %s", coqListS(fields), coqList(recs), coqList(obs)),
		CaseInfo{Subject: "helper.Csv", Desc: fmt.Sprintf("header %v, %d records", hdr, nrec), Input: map[string]any{"kind": "header", "file": file}}, nrec > 0)
}

// write/append sequences on one file
func (c *Ctx) fileOpsCase(dir string, k int) {
	file := filepath.Join(dir, fmt.Sprintf("ops-%d.csv", k))
	cs, _ := helper.NewCsv[str5](true)
	nops := 1 + c.Rng.IntN(5)
	var terms []string
	var descr []string
	for i := 0; i < nops; i++ {
		n := c.Rng.IntN(5)
		if i > 0 && c.Rng.IntN(2) == 0 {
			n = c.Rng.IntN(2) // a shorter rewrite after a longer file
		}
		rows := make([]*str5, n)
		var recs []string
		for j := range rows {
			cells := make([]string, 5)
			for q := range cells {
				cells[q] = []string{"a", "bb", "ccc", "0", "x1", "yy2"}[c.Rng.IntN(6)]
			}
			rows[j] = &str5{cells[0], cells[1], cells[2], cells[3], cells[4]}
			recs = append(recs, coqListS(cells))
		}
		var err error
		if i == 0 || c.Rng.IntN(2) == 0 {
			err = cs.WriteToFile(file, helper.SliceToChan(rows))
			terms = append(terms, "FWrite "+coqList(recs))
			descr = append(descr, fmt.Sprintf("write %d", n))
		} else {
			err = cs.AppendToFile(file, helper.SliceToChan(rows))
			terms = append(terms, "FAppend "+coqList(recs))
			descr = append(descr, fmt.Sprintf("append %d", n))
		}
		if err != nil {
			panic(err)
		}
	}
	data, err := os.ReadFile(file)
	if err != nil {
		panic(err)
	}
	c.Count("file-ops")
	c.AddCase(fmt.Sprintf("CFileOps %s %s %s", coqListS([]string{"A", "B", "C", "D", "E"}), coqList(terms), coqS(string(data))),
		CaseInfo{Subject: "helper.Csv file operations", Desc: strings.Join(descr, "; "), Input: map[string]any{"kind": "fileops", "ops": descr, "final": string(data)}}, nops > 1)
}

// one Csv instance used for several operations: read a file with its own column order, then write rows, then read again
func (c *Ctx) reuseCase(dir string, k int) {
	cs, _ := helper.NewCsv[str5](true)
	hdr := []string{"A", "B", "C", "D", "E"}
	c.Rng.Shuffle(len(hdr), func(i, j int) { hdr[i], hdr[j] = hdr[j], hdr[i] })
	if c.Rng.IntN(3) == 0 {
		hdr = append(hdr, "EXTRA")
	}
	var buf bytes.Buffer
	w := csv.NewWriter(&buf)
	_ = w.Write(hdr)
	rec := make([]string, len(hdr))
	for i := range rec {
		rec[i] = "v" + hdr[i]
	}
	_ = w.Write(rec)
	w.Flush()
	first, _ := drainT(cs.ReadFromReader(bytes.NewReader(buf.Bytes())), 5*time.Second)
	rows := []*str5{{"a1", "b1", "c1", "d1", "e1"}, {"a2", "b2", "c2", "d2", "e2"}}
	file := filepath.Join(dir, fmt.Sprintf("reuse-%d.csv", k))
	if err := cs.WriteToFile(file, helper.SliceToChan(rows)); err != nil {
		panic(err)
	}
	if c.Rng.IntN(2) == 0 {
		if err := cs.AppendToFile(file, helper.SliceToChan(rows[:1])); err != nil {
			panic(err)
		}
		rows = append(rows, rows[0])
	}
	ch, err := cs.ReadFromFile(file)
	if err != nil {
		panic(err)
	}
	back, _ := drainT(ch, 5*time.Second)
	fresh, _ := helper.ReadFromCsvFile[str5](file, true)
	back2, _ := drainT(fresh, 5*time.Second)
	c.Count("instance-reuse")
	c.Meta.Evaluations++
	ok := len(first) == 1 && *first[0] == str5{"vA", "vB", "vC", "vD", "vE"} && len(back) == len(rows) && len(back2) == len(rows)
	for i := 0; ok && i < len(rows); i++ {
		ok = *back[i] == *rows[i] && *back2[i] == *rows[i]
	}
	if !ok {
		data, _ := os.ReadFile(file)
		c.Direct(Violation{Subject: "helper.Csv", Kind: "spec", Detail: "one Csv instance: read a file with permuted columns, then write rows, then read them back: rows differ",
			Input: map[string]any{"first_header": hdr, "written_file": string(data)}})
	}
}

func jsonRoundTrip[T any](c *Ctx, name string, xs []T, eq func(a, b T) bool) {
	var buf bytes.Buffer
	if err := helper.ChanToJSON(helper.SliceToChan(xs), &buf); err != nil {
		c.Direct(Violation{Subject: "helper.ChanToJSON", Kind: "spec", Detail: err.Error(), Input: map[string]any{"type": name}})
		return
	}
	back, ok := drainT(helper.JSONToChan[T](bytes.NewReader(buf.Bytes())), 5*time.Second)
	c.Count("json-roundtrip/" + name)
	c.Meta.Evaluations++
	bad := !ok || len(back) != len(xs)
	for i := 0; !bad && i < len(xs); i++ {
		bad = !eq(xs[i], back[i])
	}
	if bad {
		c.Direct(Violation{Subject: "helper.ChanToJSON/JSONToChan", Kind: "spec", Detail: fmt.Sprintf("%s: streamed out and back differs (%d -> %d values)", name, len(xs), len(back)),
			Input: map[string]any{"type": name, "json": buf.String()}})
	}
}

type jrec struct {
	Name  string           `json:"name"`
	Opt   string           `json:"opt,omitempty"`
	Vals  []float64        `json:"vals,omitempty"`
	Attrs map[string]int   `json:"attrs,omitempty"`
	Inner *struct{ X int } `json:"inner,omitempty"`
}

func runC11(c *Ctx) error {
	c.header = "From Coq Require Import ZArith List String.\nImport ListNotations.\nFrom Verif Require Import Codec.Csv Run.C11Run.\n"
	c.perFile = 200
	c.Meta.Rule = "(1) rows of a struct over every supported kind (string, bool, int..int64, uint..uint64, float32, float64, dates in a declared format, default timestamp format, " +
		"a header needing quotes) with adversarial values (quotes, separators, leading/trailing spaces, LF, non-ASCII; extreme integers; random float bit patterns, subnormals, max), written " +
		"and read back, compared exactly; (2) header records with permuted, extra, missing and duplicated columns over an all-string struct against the record-level model; (3) sequences of " +
		"WriteToFile/AppendToFile on one file including a longer file overwritten by a shorter one, against the byte-level model; (3b) one Csv instance reused: read a permuted file, write, read back; (4) JSON array round trips of ints, floats, strings, structs with omitted fields, maps and slices."
	if c.Replay != "" {
		return fmt.Errorf("replay: re-run the check with the recorded seed (cases of C11 are regenerated from the seed)")
	}
	dir, err := os.MkdirTemp("", "verif-c11-")
	if err != nil {
		return err
	}
	defer os.RemoveAll(dir)
	for k := 0; k < c.N(150, 1500); k++ {
		c.typedRoundTrip(dir, k)
	}
	for k := 0; k < c.N(200, 2000); k++ {
		c.headerCase()
	}
	for k := 0; k < c.N(150, 1500); k++ {
		c.fileOpsCase(dir, k)
	}
	for k := 0; k < c.N(40, 400); k++ {
		c.reuseCase(dir, k)
	}
	for k := 0; k < c.N(40, 400); k++ {
		n := c.Rng.IntN(6)
		ints := make([]int, n)
		fl := make([]float64, n)
		ss := make([]string, n)
		rs := make([]jrec, n)
		for i := 0; i < n; i++ {
			ints[i] = pick(c, 0, -1, math.MaxInt64, math.MinInt64, c.Rng.Int())
			fl[i] = c.randFloat64()
			ss[i] = c.randStr() + pick(c, "", " ", "<&>", "\\", "\x00")
			rs[i] = jrec{Name: c.randStr()}
			if c.Rng.IntN(2) == 0 {
				rs[i].Opt = "opt" + fmt.Sprint(i)
			}
			if c.Rng.IntN(2) == 0 {
				rs[i].Vals = []float64{float64(i), 0.5}
			}
			if c.Rng.IntN(2) == 0 {
				rs[i].Attrs = map[string]int{fmt.Sprint("k", i): i}
			}
			if c.Rng.IntN(3) == 0 {
				rs[i].Inner = &struct{ X int }{i}
			}
		}
		jsonRoundTrip(c, "int", ints, func(a, b int) bool { return a == b })
		jsonRoundTrip(c, "float64", fl, func(a, b float64) bool { return math.Float64bits(a) == math.Float64bits(b) })
		jsonRoundTrip(c, "string", ss, func(a, b string) bool { return a == b })
		jsonRoundTrip(c, "struct", rs, func(a, b jrec) bool { return reflect.DeepEqual(a, b) })
		snaps := make([]*asset.Snapshot, n)
		for i := range snaps {
			snaps[i] = &asset.Snapshot{Date: time.Date(2020, 1, 1+i, 0, 0, 0, 0, time.UTC), Open: c.randFloat64(), Close: c.randFloat64()}
		}
		jsonRoundTrip(c, "snapshot", snaps, func(a, b *asset.Snapshot) bool {
			return a.Date.Equal(b.Date) && math.Float64bits(a.Open) == math.Float64bits(b.Open) && math.Float64bits(a.Close) == math.Float64bits(b.Close)
		})
	}
	return nil
}
