// C06: base strategies apply their documented rule to the documented data. OHLCV series whose fields vary
// independently (so that mis-wired fields show), random thresholds and periods; the oracle is Spec/StrategyDoc.v
// evaluated inside Coq at binary64.
package main

import (
	"fmt"
	"time"
)

func init() { registry["C06"] = runC06 }

// indepBars: valid OHLCV where high, low, open, close and volume move independently of each other.
func (c *Ctx) indepBars(n int) (Bars, string) {
	b := Bars{}
	regimes := []string{"indep-walk", "indep-walk", "spikes", "plateaus", "wide-range"}
	reg := regimes[c.Rng.IntN(len(regimes))]
	mid := 50 + c.Rng.Float64()*100
	day := int64(12000)
	plateau := 0
	for i := 0; i < n; i++ {
		switch reg {
		case "plateaus":
			if plateau == 0 && c.Rng.IntN(7) == 0 {
				plateau = 3 + c.Rng.IntN(15)
			}
			if plateau > 0 {
				plateau--
			} else {
				mid += c.Rng.NormFloat64() * 2
			}
		case "spikes":
			if c.Rng.IntN(12) == 0 {
				mid += c.Rng.NormFloat64() * 25
			} else {
				mid += c.Rng.NormFloat64()
			}
		default:
			mid += c.Rng.NormFloat64() * 2
		}
		if mid < 5 {
			mid = 5
		}
		span := 0.5 + c.Rng.Float64()*4
		if reg == "wide-range" {
			span *= 5
		}
		lo := mid - span*c.Rng.Float64()
		hi := mid + span*c.Rng.Float64()
		if lo < 0.5 {
			lo = 0.5
		}
		op := lo + (hi-lo)*c.Rng.Float64()
		cl := lo + (hi-lo)*c.Rng.Float64()
		if reg == "plateaus" && plateau > 0 && i > 0 {
			op, cl, hi, lo = b.Close[i-1], b.Close[i-1], b.High[i-1], b.Low[i-1]
		}
		b.Open = append(b.Open, op)
		b.High = append(b.High, hi)
		b.Low = append(b.Low, lo)
		b.Close = append(b.Close, cl)
		b.Volume = append(b.Volume, float64(1000+c.Rng.IntN(50000)))
		b.Day = append(b.Day, day)
		day++
	}
	return b, reg
}

func (c *Ctx) c06Case(typeKey string, sp Spec, b Bars, reg string) bool {
	t := genTypes[typeKey]
	inst, cfg, err := sp.Build()
	if err != nil {
		panic(err)
	}
	adm, err := admTermRec(&sp, 0)
	if err != nil {
		panic(err)
	}
	acts, hung := runStrategy(inst, b, time.Second)
	if hung {
		acts, hung = runStrategy(inst, b, 4*time.Second)
	}
	term := fmt.Sprintf("(let c_ := %s in CDoc %s %s %s %s %s %s)", cfg, atF(t.Coq+"_Compute", "c_ (EIn 0)"),
		atFI("doc_"+t.Coq+"_Compute", "c_ (EIn 0)"), adm, coqBars(b), coqListZ(acts), coqBool(hung))
	c.Count("type/" + typeKey)
	c.Count("regime/" + reg)
	nonHold := 0
	for _, a := range acts {
		if a != 0 {
			nonHold++
		}
	}
	c.AddCase(term, CaseInfo{Subject: typeKey, Desc: fmt.Sprintf("%s n=%d actions=%d non-Hold=%d hung=%v", cfg, len(b.Close), len(acts), nonHold, hung),
		Input: stratInput{Type: typeKey, Spec: sp, Cfg: cfg, N: len(b.Close), Bars: barsJSON(b), Acts: acts, Hung: hung, Regime: reg}}, nonHold > 0)
	return hung
}

// atFI: a definition of Spec/StrategyDoc.v (implicit I, T always present).
func atFI(name, args string) string {
	return fmt.Sprintf("(%s (I:=snap) (T:=float) %s)", name, args)
}

func runC06(c *Ctx) error {
	c.header = fmt.Sprintf(flowHeader, "Spec.StrategyDoc Run.C06Run")
	c.perFile = 40
	c.caseType = "dcase"
	c.Meta.Rule = "every base strategy type x sampled configurations (default, With-constructors, random periods and thresholds) x OHLCV series of length about 3x the warm-up " +
		"whose high, low, open, close and volume vary independently within low <= open, close <= high (regimes: independent walk, spikes, plateaus, wide range); " +
		"observable = the action sequence; oracle = the documented behaviour (Spec/StrategyDoc.v) at binary64. Non-trivial: at least one non-Hold action."
	if c.Replay != "" {
		var in stratInput
		if err := readReplayInput(c.Replay, &in); err != nil {
			return err
		}
		c.c06Case(in.Type, in.Spec, barsFromJSON(in.Bars), in.Regime)
		return nil
	}
	cfgs := c.N(3, 10)
	for _, typeKey := range baseStrategyTypes() {
		if focusTypes != nil && !focusTypes[typeKey] {
			continue
		}
		for k := 0; k < cfgs; k++ {
			sp := c.randSpec(typeKey, 7, 0, k > 0)
			inst, _, err := sp.Build()
			if err != nil {
				return err
			}
			w0, hung := runStrategy(inst, Bars{}, 2*time.Second)
			if hung {
				continue
			}
			for r := 0; r < 2; r++ {
				n := 3*len(w0) + 20 + c.Rng.IntN(40)
				if n > 700 {
					n = 700
				}
				b, reg := c.indepBars(n)
				if c.c06Case(typeKey, sp, b, reg) {
					break
				}
			}
		}
	}
	return nil
}
